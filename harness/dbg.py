import sys, json
import runner, mbworld
def load(path):
    return runner.from_jsonable(json.load(open(path))["params"])
if __name__ == "__main__":
    P = load(sys.argv[1])
    rec = mbworld.run(P)
    for i in range(2):
        print("side", i, [(k, s) for k, v, s in rec.evs[i]], "sent", len(rec.sent[i]))
    print("settle", rec.settle, "api_exc", rec.api_exc, "escaped", rec.escaped)
    print("errors", rec.errors)
    print("drops", rec.drops, rec.drop_states)
    for i in range(2):
        print("states", i, {m: rec.last_state(i, m) for m in mbworld.MACHINES})
    print([ (n,k,c.get('type'), c.get('phase')) for n,k,c in rec.world.cmdlog])
    print(rec.world.trace)
    if len(sys.argv) > 2:
        for n,k,m in rec.world.srvlog:
            if m.get('type') != 'ack': print("SRV->", n, k, {a:b for a,b in m.items() if a not in ('server_tx','body')})
        print("srv_exceptions", rec.world.srv_exceptions, "third", rec.third and rec.third.rx)
        for s in rec.world.services: print(s.name, s.started, s.conn and s.conn.alive, s.conn and (len(s.conn.c2s), len(s.conn.s2c), s.conn.stopping))
