import sys, json
import runner, mbworld
def load(path):
    return runner.from_jsonable(json.load(open(path))["params"])
if __name__ == "__main__":
    P = load(sys.argv[1])
    rec = mbworld.run(P)
    for i in range(2):
        print("side", i, [(k, s) for k, v, s in rec.evs[i]], "sent", len(rec.sent[i]))
    print("settle", rec.settle, "api_exc", rec.api_exc, "escaped", rec.escaped)
    print("errors", rec.errors)
    print("drops", rec.drops, rec.drop_states)
    for i in range(2):
        print("states", i, {m: rec.last_state(i, m) for m in mbworld.MACHINES})
    print([ (n,k,c.get('type'), c.get('phase')) for n,k,c in rec.world.cmdlog])
    print(rec.world.trace)
