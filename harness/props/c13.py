# C13 - subchannels open once, close once, and honour the subprotocol contract.
import json
from hypothesis import strategies as st
from runner import CaseResult
from props import common
import dilworld
CASE_WALL_S = 60

ID = "C13"
TIERS = {"quick": dict(examples=1200), "thorough": dict(examples=30000)}
RULE = ("Two real dilated wormholes; per side expected_subprotocols is unset or a subset of a 4-name alphabet "
        "(passed through w.dilate()); listeners are registered before, after or never relative to the peer's "
        "OPEN (only for names inside the side's own declared set); connect(name) for listened, pending and "
        "unexpected names from both sides; writes before and after the peer attaches; loseConnection from "
        "either or both ends (simultaneously when the tape says so); write after local close. Oracle at "
        "quiescence and after every step: each opened subchannel whose name the peer accepts appears exactly once "
        "on the peer under the requested name (when a listener exists, otherwise when one is registered), queued "
        "data arrives in order; an OPEN for a name outside the peer's declared set is never attached, the opener "
        "sees connectionLost, and nothing for it stays pending on the peer; ids allocated by the two sides are "
        "disjoint (leader odd, follower even); data written before a local close is delivered before the peer's "
        "connectionLost; each end sees connectionLost exactly once and nothing after it; write after a local "
        "close raises. Non-trivial = simultaneous close, OPEN before listen, or an unexpected name with a "
        "declared set. Distinct = (features, event-kind trace).")
ASSUMPTIONS = ["normal (fully-closeable) protocols are asserted; for IHalfCloseableProtocol applications the "
               "read/writeConnectionLost notifications are recorded and reported, not asserted (docs: half-close "
               "is unspecified)", "simulated TCP; 0-2 kills of the link in use"]

# (two of the four names are canonically equivalent but different strings: subprotocol names are compared as given)
NAMES = ["p", "q", "re\u0301sume\u0301", "r\u00e9sum\u00e9"]


@st.composite
def cases(draw, tier="quick"):
    P = {}
    expected = []
    for side in range(2):
        if draw(st.booleans()):
            expected.append(None)
        else:
            expected.append(sorted(draw(st.sets(st.sampled_from(NAMES), min_size=0, max_size=3))))
    P["expected"] = expected
    ops = []
    counts = [0, 0]
    subs = []
    for k in range(draw(st.integers(1, 5))):
        side = draw(st.integers(0, 1))
        name = draw(st.sampled_from(NAMES))
        subs.append((side, counts[side], name))
        counts[side] += 1
        ops.append(["open", side, name])
    for side in range(2):
        allowed = NAMES if expected[side] is None else expected[side]
        for name in allowed:
            when = draw(st.sampled_from(["early", "late", "late", "never"]))
            if when == "early":
                ops.insert(0, ["listen", side, name])
            elif when == "late":
                ops.insert(draw(st.integers(0, len(ops))), ["listen", side, name])
    for (side, idx, name) in subs:
        for end in ("o", "a"):
            for _ in range(draw(st.integers(0, 3))):
                ops.append(["write", [side, idx], end, draw(st.sampled_from([0, 1, 5, 100, 65515, 70000]))])
        cl = draw(st.sampled_from(["none", "o", "a", "both", "both"]))
        if cl in ("o", "both"):
            ops.append(["sclose", [side, idx], "o"])
        if cl in ("a", "both"):
            ops.append(["sclose", [side, idx], "a"])
        if cl != "none" and draw(st.booleans()):
            ops.append(["write_after_close", [side, idx], draw(st.sampled_from(["o", "a"]))])
    perm = draw(st.permutations(range(len(ops))))
    P["ops"] = [ops[j] for j in sorted(range(len(ops)), key=lambda j: perm[j])]
    P["half"] = draw(st.integers(0, 7)) == 0
    P["kills"] = draw(st.sampled_from([0, 0, 0, 1, 2]))
    P["w_kill"] = draw(st.sampled_from([1, 4]))
    if draw(st.integers(0, 3)) == 0:
        # the last connect() of a side is issued only after the connection was lost and replaced (with earlier
        # subchannels possibly still open)
        P["hold_last_open"] = draw(st.sampled_from([[1, 0], [0, 1], [1, 1]]))
        P["kills"] = max(1, P["kills"])
        P["w_kill"] = 4
    # openers that write (and maybe close) synchronously inside connectionMade()
    P["eager"] = draw(st.sampled_from([None, None, None, "write", "close"]))
    P["max_reconnects"] = 8
    n = draw(st.integers(30, 300))
    P["tape"] = draw(st.binary(min_size=n, max_size=n))
    return P


def strategy(tier):
    return cases(tier)


def refused(P, opener_side, name, case):
    """an OPEN by opener_side for `name` is outside the set the PEER declared as expected"""
    exp = P["expected"][1 - opener_side]
    return exp is not None and name not in exp


def check(case, P, final):
    from wormhole._dilation.roles import LEADER
    per = {}
    for o in case.opens:
        per.setdefault((o[0], o[1]), []).append(o)
    for (side, name), lst in per.items():
        accs = case.accepted[(1 - side, name)]
        if refused(P, side, name, case):
            if accs:
                return ("refuse", "OPEN for %r (outside the peer's expected set %r) was attached to a protocol" % (
                    name, P["expected"][1 - side]), "unexpected-subprotocol-attached")
            if final:
                for o in lst:
                    oe = o[2]
                    if oe is not None and "lost" not in oe.kinds():
                        return ("refuse", "OPEN for %r is outside the peer's declared set %r but the opener never saw "
                                "connectionLost (the OPEN is held open, not refused)" % (name, P["expected"][1 - side]),
                                "unexpected-subprotocol-not-refused")
                m = case.managers()[1 - side]
                pend = getattr(getattr(m, "_subprotocol_factories", None), "_pending_opens", {}) if m else {}
                if pend.get(name):
                    return ("refuse", "OPEN for unexpected %r held pending on the peer" % name,
                            "unexpected-subprotocol-held-pending")
            continue
        if len(accs) > len(lst):
            return ("once", "%d subchannels named %r attached, peer opened %d" % (len(accs), name, len(lst)),
                    "attached-more-than-once")
        for k, o in enumerate(lst):
            oe = o[2]
            ae = accs[k] if k < len(accs) else None
            if ae is not None and ae.addr_name != name:
                return ("once", "attached under %r, opened as %r" % (ae.addr_name, name), "wrong-subprotocol")
            if final and ae is None and (1 - side, name) in case.listening and oe is not None:
                return ("once", "subchannel %r#%d opened by side %d never appeared although the peer listens" % (
                    name, k, side), "open-never-attached")
            for snd, rcv, d in ((oe, ae, "o>a"), (ae, oe, "a>o")):
                if snd is None or rcv is None:
                    continue
                got = rcv.got()
                kinds = rcv.kinds()
                if P["half"] and (isinstance(rcv, dilworld.HalfEnd) or isinstance(snd, dilworld.HalfEnd)):
                    if got != snd.writes[:len(got)]:
                        return ("order", "half-closeable %s: received %s, written %s" % (
                            d, common.short(got), common.short(snd.writes)), "data-not-prefix")
                    continue
                if got != snd.writes[:len(got)]:
                    return ("order", "subchannel %r#%d %s: received %s, written %s" % (
                        name, k, d, common.short(got), common.short(snd.writes)), "data-not-prefix")
                if kinds and kinds[0] != "made":
                    return ("once", "event before connectionMade: %r" % kinds[:4], "event-before-made")
                if kinds.count("lost") > 1:
                    return ("once", "connectionLost delivered %d times: %r" % (kinds.count("lost"), kinds),
                            "connectionLost-twice")
                if "lost" in kinds and kinds[-1] != "lost":
                    return ("once", "callback after connectionLost: %r" % kinds[-4:], "event-after-connectionLost")
                if "lost" in kinds and snd.closed_locally is None and rcv.closed_locally is None:
                    return ("once", "connectionLost although neither end closed", "spurious-connectionLost")
                if getattr(snd, "late_write_accepted", False):
                    return ("once", "write() after a local loseConnection() was accepted silently",
                            "write-after-close-accepted")
                # the peer's CLOSE travels behind all of its DATA, and an end that closed first keeps receiving until
                # that CLOSE arrives: whoever closed first, connectionLost never overtakes data written before
                if "lost" in kinds and got != snd.writes:
                    return ("order", "subchannel %r#%d %s: connectionLost arrived before data written before the "
                            "close (%d of %d)" % (name, k, d, len(got), len(snd.writes)), "lost-before-data")
                if final:
                    if (snd.closed_locally is not None or rcv.closed_locally is not None) and "lost" not in kinds:
                        return ("once", "subchannel %r#%d: an end closed but the %s end never saw connectionLost" % (
                            name, k, "acceptor" if rcv is ae else "opener"), "connectionLost-missing")
                    if rcv.closed_locally is None and snd.closed_locally is None and got != snd.writes:
                        return ("order", "subchannel %r#%d %s: %d of %d writes delivered" % (
                            name, k, d, len(got), len(snd.writes)), "writes-missing")
    if final:
        for o in case.opens:
            if o[2] is None and o[3] is not None:
                return ("once", "connect() for %r by side %d failed: %r - the subchannel never appears on the peer" % (
                    o[1], o[0], o[3].value), "connect-failed:%s" % type(o[3].value).__name__)
    # subchannel ids
    ms = case.managers()
    lead = case.leader_index()
    ids = [set(), set()]
    for o in case.opens:
        if o[2] is not None and getattr(o[2], "transport", None) is not None:
            scid = getattr(o[2].transport, "_scid", None)
            if scid is not None:
                ids[o[0]].add(scid)
    if ids[0] & ids[1]:
        return ("ids", "both sides allocated subchannel id(s) %r" % sorted(ids[0] & ids[1]), "scid-collision")
    if lead is not None:
        if any(s % 2 == 0 for s in ids[lead]) or any(s % 2 == 1 for s in ids[1 - lead]):
            return ("ids", "leader ids %r, follower ids %r" % (sorted(ids[lead]), sorted(ids[1 - lead])), "scid-parity")
    return None


def run_case(P):
    res = CaseResult()
    case = dilworld.DilCase(P)
    case.setup()
    bad = []

    def after(c):
        if not bad:
            v = check(c, P, final=False)
            if v:
                bad.append(v + (c.step,))
    simultaneous = [0]
    try:
        case.run(after_step=after)
        case.flush_intents()
        case.settles.append(case.settle(after_step=after))
        if not bad:
            if all(s in ("quiescent", "time") for s in case.settles):
                v = check(case, P, final=True)
                if v:
                    bad.append(v + (case.step,))
            elif any(s == "reconnect-loop" for s in case.settles):
                # no fault is injected during stabilisation: a pair that keeps losing every new connection never
                # delivers what was written before the closes (nor the closes themselves)
                bad.append(("order", "fault-free stabilisation kept replacing the connection in use: data written before "
                            "a close and the close itself are never delivered", "reconnect-loop-without-faults", case.step))
            else:
                res.inconclusive = True
        case.close_all()
    finally:
        case.finish()
    if bad:
        cl, detail, ic, step = bad[0]
        res.violate(cl, "%s (step %d; expected sets %r)" % (detail, step, P["expected"]), input_class=ic)
    for it, ex in case.api_exc:
        res.violate("api", "%r raised %r" % (it, ex), input_class="api-raises:%s" % type(ex).__name__, exc=type(ex).__name__)
        break
    for kind, ex, f in case.escaped:
        res.violate("escape", "exception escaped event %s: %r" % (kind, ex), input_class="escaped:%s" % type(ex).__name__,
                    exc=type(ex).__name__)
        break
    both_closed = sum(1 for o in case.opens if o[2] is not None and o[2].closed_locally is not None
                      and any(a.closed_locally is not None for a in case.accepted[(1 - o[0], o[1])]))
    open_before_listen = any(it[0] == "open" for it in P["ops"][:3])
    unexpected = any(refused(P, o[0], o[1], case) for o in case.opens)
    res.nontrivial = both_closed > 0 or unexpected or open_before_listen
    res.features = dict(exp0=P["expected"][0] is not None, exp1=P["expected"][1] is not None, unexpected=unexpected,
                        both_closed=min(both_closed, 2), subs=len(case.opens), half=P["half"], eager=str(P.get("eager")))
    for e in case.ends:
        if isinstance(e, dilworld.HalfEnd):
            res.notes["halfcloseable_events:" + ",".join(k for k in e.kinds() if k != "data")] += 1
    for (exc, frame, msg) in case.errors:
        res.notes["errlog:%s@%s" % (exc, frame)] += 1
    res.trace = dilworld.trace_of(case)
    res.steps = case.W.steps
    res.sample = dict(expected=P["expected"], ops=P["ops"][:30],
                      subchannels=[[o[0], o[1], o[2].kinds() if o[2] else None] for o in case.opens])
    return res
