# C11 - Dilation peers agree on roles, use one connection at a time, re-converge.
import json
from hypothesis import strategies as st
from runner import CaseResult
from props import common
import dilworld
from dilworld import unwrap
CASE_WALL_S = 60

ID = "C11"
TIERS = {"quick": dict(examples=1200), "thorough": dict(examples=30000)}
RULE = ("Two real dilated wormholes; w.dilate() is called on each side at a tape-chosen moment (before the key, "
        "after versions, long after); listeners on/off per side, the real transit relay optional, so each "
        "generation has 1-3 connection candidates whose handshakes progress byte by byte under the tape; the "
        "selected link is killed 0-4 times with the Leader or the Follower noticing first (or while a reconnect "
        "is still in progress); non-selected candidates are killed as long as another candidate of that side "
        "survives; ping/relay timers fire when the tape advances the clock; a little subchannel traffic keeps "
        "records in flight. Invariants after EVERY step: if both Managers have a role they are {Leader, "
        "Follower} and the Leader is the side with the greater dilation side string; per side at most one live "
        "selected L2 connection and Manager._connection is it; every connection the Follower has selected is the "
        "peer end of a link on which the Leader end was selected (the Leader wrote its KCM there). At quiescence "
        "after stabilisation (no more faults): both Managers are connected and their connections are the two "
        "ends of one link. Non-trivial = >=1 loss of a selected link, or >=2 candidates established in one "
        "generation, or the two dilate() calls separated by >=1 scheduler step. Distinct = (features, trace).")
RULE += (" Added later: losses noticed by one side only or by nobody (silent stall: only the Leader's keep-alive detects it); the Leader's candidate lost while its accept() waits in the eventual queue.")
ASSUMPTIONS = ["simulated TCP and mailbox (FIFO per sender, no mailbox faults)", "convergence judged at quiescence "
               "within the stabilisation budget; the precondition 'one attempt of the new generation completes' holds "
               "because no faults are injected during stabilisation"]


@st.composite
def cases(draw, tier="quick"):
    P = {}
    P["dilate_at"] = [draw(st.sampled_from(["start", "tape", "tape"])), draw(st.sampled_from(["start", "tape", "tape"]))]
    nl = draw(st.sampled_from([[False, False], [False, False], [True, False], [False, True]]))
    P["no_listen"] = nl
    P["relay"] = draw(st.booleans())
    if P["relay"] and draw(st.integers(0, 3)) == 0:
        P["no_listen"] = [True, True]          # the relay is the only path, in every generation
        # ... and maybe only one side is configured with it: the other learns it from the peer's hints, again in
        # every generation
        P["relay_sides"] = draw(st.sampled_from([[1, 1], [1, 0], [0, 1]]))
    P["kills"] = draw(st.sampled_from([0, 1, 1, 2, 3, 4]))
    P["cand_kills"] = draw(st.sampled_from([0, 0, 1, 2]))
    P["kill_awaiting_accept"] = P["cand_kills"] > 0 and draw(st.booleans())
    P["kill_half_selected"] = P["cand_kills"] > 0 and draw(st.booleans())
    P["w_kill"] = draw(st.sampled_from([1, 2, 4]))
    P["ping_interval"] = [draw(st.sampled_from([1.0, 5.0, 30.0]))] * 2
    # how a loss of the connection in use is noticed: by both TCP stacks (in either order), by one of them, or by
    # nobody (a silent stall that only the Leader's keep-alive can detect)
    P["kill_notify"] = draw(st.sampled_from(["both", "both", "tape", "tape", "none"]))
    P["silent_kills"] = P["kill_notify"] != "both"
    if P["silent_kills"] and P["ping_interval"][0] > 5.0:
        P["ping_interval"] = [5.0, 5.0]
    P["settle_time"] = 45.0
    P["max_reconnects"] = 8
    ops = [["listen", 0, "p"], ["listen", 1, "p"]]
    for k in range(draw(st.integers(0, 2))):
        side = draw(st.integers(0, 1))
        ops.append(["open", side, "p"])
    counts = [sum(1 for o in ops if o[0] == "open" and o[1] == s) for s in range(2)]
    for side in range(2):
        for idx in range(counts[side]):
            for _ in range(draw(st.integers(0, 4))):
                ops.append(["write", [side, idx], draw(st.sampled_from(["o", "a"])), draw(st.sampled_from([1, 50, 3000]))])
    P["ops"] = ops
    # an aged session: that many generations were used up (loss, reconvergence) before the generated schedule starts,
    # so sequence numbers and generation counters are past their first decade
    P["pre_generations"] = draw(st.sampled_from([0, 0, 0, 0, 0, 0, 3, 6, 12]))
    if P["pre_generations"]:
        P["dilate_at"] = ["start", "start"]
    n = draw(st.integers(30, 400))
    P["tape"] = draw(st.binary(min_size=n, max_size=n))
    return P


def strategy(tier):
    return cases(tier)


def invariants(case, P):
    from wormhole._dilation.roles import LEADER, FOLLOWER
    ms = case.managers()
    roles = [m._my_role if m is not None else None for m in ms]
    lead = None
    if roles[0] is not None and roles[1] is not None:
        if {roles[0], roles[1]} != {LEADER, FOLLOWER}:
            return ("roles", "roles %r / %r" % (roles[0], roles[1]), "same-role-on-both-sides")
        lead = 0 if roles[0] is LEADER else 1
        if not (ms[lead]._my_side > ms[1 - lead]._my_side):
            return ("roles", "Leader has side %r, Follower %r" % (ms[lead]._my_side, ms[1 - lead]._my_side),
                    "leader-is-not-the-greater-side")
    sel = [[], []]
    for l in case.W.net.links:
        for t in (l.a, l.b):
            if t.lost:
                continue
            p = unwrap(t.protocol)
            if getattr(p, "_manager", None) is not None:
                for i in range(2):
                    if t.owner is case.ws[i]._sim_node:
                        sel[i].append((p, t, l))
    for i in range(2):
        if len(sel[i]) > 1:
            return ("one", "side %d has %d live selected connections" % (i, len(sel[i])), "two-selected-connections")
        m = ms[i]
        if m is not None and m._connection is not None and sel[i] and m._connection is not sel[i][0][0]:
            return ("one", "side %d: Manager._connection is not the live selected connection" % i,
                    "manager-uses-another-connection")
    if lead is not None:
        f = 1 - lead
        for (p, t, l) in sel[f]:
            peer = t.peer
            pp = unwrap(peer.protocol)
            if getattr(peer.owner, "name", "") == "relay":
                # through the transit relay: the far end is the relay's other client
                buddy = getattr(pp, "_buddy", None)
                bt = getattr(getattr(buddy, "_client", None), "transport", None) if buddy is not None else None
                far = getattr(bt, "peer", None)
                if far is None:
                    continue
                pp = unwrap(far.protocol)
            # the Leader end must have been selected on this link at some point (it wrote its KCM there)
            if not hasattr(pp, "_can_send_records") or not hasattr(pp, "_manager"):
                continue        # cannot observe selection on this tree: clause not judged
            if not pp._can_send_records and pp._manager is None:
                return ("confirmed", "the Follower selected a connection whose Leader end was never selected",
                        "follower-selected-unconfirmed-connection")
    return None


def run_case(P):
    res = CaseResult()
    case = dilworld.DilCase(P)
    case.setup()
    bad = []
    cand_left = [P.get("cand_kills", 0)]
    cand_killed = [0]
    awaiting_killed = [0]
    half_killed = [0]
    max_cands = [0]
    dilate_steps = [None, None]

    def after(c):
        for i in range(2):
            if dilate_steps[i] is None and c.dilated[i]:
                dilate_steps[i] = c.step
        if not bad:
            v = invariants(c, P)
            if v:
                bad.append(v + (c.step,))

    def extra(c):
        out = []
        # established, not yet selected links owned by the two clients: candidates
        nodes = [w._sim_node for w in c.ws]
        cands = []
        for l in c.W.net.links:
            if l.a.broken or l.a.lost or l.b.lost:
                continue
            pa, pb = unwrap(l.a.protocol), unwrap(l.b.protocol)
            if any(getattr(p, "_manager", None) is not None for p in (pa, pb)):
                continue
            if (l.a.owner in nodes or getattr(l.a.owner, "name", "") == "relay") and \
                    (l.b.owner in nodes or getattr(l.b.owner, "name", "") == "relay"):
                cands.append(l)
        max_cands[0] = max(max_cands[0], len(cands))
        if cand_left[0] > 0 and len(cands) >= 2 and not P["relay"]:
            def kill(c2, l=cands[c2.tape.below(len(cands))] if False else None):
                pass
            for l in cands[:1]:
                def kill_one(c2, l=l):
                    cand_left[0] -= 1
                    cand_killed[0] += 1
                    l.break_()
                out.append((1, ("custom", kill_one)))
        # the Leader's candidate whose accept() is waiting in the eventual queue is lost, and the Leader's TCP
        # stack reports it before that turn runs (an RST processed in the same reactor iteration as the KCM)
        li = c.leader_index()
        if cand_left[0] > 0 and li is not None and P.get("kill_awaiting_accept"):
            m = c.managers()[li]
            cn = getattr(m, "_connector", None) if m is not None else None
            if cn is not None and getattr(cn, "_winning_connection", None) is None:
                for p_ in list(getattr(cn, "_contenders", None) or [])[:1]:
                    t = getattr(p_, "transport", None)
                    l = getattr(t, "link", None)
                    if l is None or t.lost or t.broken:
                        continue

                    def kill_now(c2, l=l, t=t):
                        from twisted.internet import error as terror
                        cand_left[0] -= 1
                        cand_killed[0] += 1
                        awaiting_killed[0] += 1
                        l.break_()
                        if t in l.pending_notify:
                            l.pending_notify.remove(t)
                        t._lose(terror.ConnectionLost())
                    out.append((12, ("custom", kill_now)))
        # the connection is lost right after the Leader selected it, while the Follower is still CONNECTING (it has not
        # processed the Leader's KCM yet), and the Leader notices first: RECONNECT reaches a Follower that is in the
        # middle of the previous reconnect
        if cand_left[0] > 0 and li is not None and P.get("kill_half_selected"):
            ms_ = c.managers()
            L_, F_ = ms_[li], ms_[1 - li]
            if L_ is not None and F_ is not None and c.state_name(L_) == "CONNECTED" and c.state_name(F_) == "CONNECTING":
                for l in c.selected_links():
                    if l.a.broken:
                        continue

                    def kill_half(c2, l=l):
                        cand_left[0] -= 1
                        half_killed[0] += 1
                        c2.kills += 1
                        who = c2.ws[li]._sim_node
                        ends = tuple(t for t in (l.a, l.b) if t.owner is who)
                        l.break_(notify=ends if ends else None)
                    out.append((12, ("custom", kill_half)))
        return out
    try:
        aged = 0
        if P.get("pre_generations"):
            case.settles.append(case.settle(after_step=after))
            for _ in range(P["pre_generations"]):
                links = [l for l in case.selected_links() if not l.a.broken]
                if not links or not all(m is not None and m._connection for m in case.managers()):
                    break
                case.do_kill(links[0])
                case.settles.append(case.settle(after_step=after))
                aged += 1
        case.run(extra_choices=extra, after_step=after)
        for i in range(2):
            if not case.dilated[i]:
                case._do_intent(["dilate", i])
        case.flush_intents()
        case.settles.append(case.settle(after_step=after))
        if not bad and any(s == "reconnect-loop" for s in case.settles):
            res.violate("converge", "with no fault injected the connection in use was replaced more than 8 times during "
                        "stabilisation: the sides keep losing every new generation; logged %r" % (case.W.error_summaries()[:2],),
                        input_class="reconnect-loop-without-faults")
        elif not bad:
            if all(s in ("quiescent", "time") for s in case.settles):
                ms = case.managers()
                conns = [m._connection if m is not None else None for m in ms]
                if not all(conns):
                    states = [case.state_name(m) for m in ms]
                    ic = "not-converged:%s/%s" % tuple(states)
                    extra_info = ""
                    if P["relay"] and all(P["no_listen"]):
                        # relay-only topology: how many connections of each side are still open towards the relay
                        nodes = [w._sim_node for w in case.ws]
                        waiting = [0, 0]
                        for l in case.W.net.links:
                            for t in (l.a, l.b):
                                if t.owner in nodes and not t.lost and not t.closing and \
                                        getattr(t.peer.owner, "name", "") == "relay":
                                    waiting[nodes.index(t.owner)] += 1
                        ic += ":relay-only:waiting-at-relay=%s" % ("one-side" if sorted(waiting) == [0, 1] else "%d/%d" % tuple(waiting))
                        if sorted(waiting) == [0, 1]:
                            # the listed finding is about a side that DID dial the relay in its current generation and
                            # was paired with a stale connection; a side that never dialled it is something else
                            idle = waiting.index(0)
                            mark = getattr(ms[idle], "_verif_dial_mark", None)
                            if mark is not None:
                                mine = [d_ for d_ in case.W.net.dialled[mark:] if d_[0] == nodes[idle].name]
                                if not mine:
                                    ic += ":other-side-never-dialled"
                        extra_info = "; relay is the only path, open connections towards the relay per side %r" % waiting
                    res.violate("converge", "after %d kills of the selected link and %d candidate kills the sides did "
                                "not re-converge: Manager states %r, connections %r (settle %r)%s" % (
                                    case.kills, cand_killed[0], states, [bool(x) for x in conns], case.settles[-2:], extra_info),
                                input_class=ic)
                else:
                    t0, t1 = conns[0].transport, conns[1].transport
                    if not _same_link(t0, t1):
                        res.violate("converge", "both sides are connected, but not to each other's ends of one link",
                                    input_class="converged-on-different-links")
            else:
                res.inconclusive = True
        case.close_all()
    finally:
        case.finish()
    if bad:
        cl, detail, ic, step = bad[0]
        res.violate(cl, "%s (step %d, kills %d)" % (detail, step, case.kills), input_class=ic)
    for it, ex in case.api_exc:
        res.violate("api", "%r raised %r" % (it, ex), input_class="api-raises:%s" % type(ex).__name__, exc=type(ex).__name__)
        break
    sep = None
    if dilate_steps[0] is not None and dilate_steps[1] is not None:
        sep = abs(dilate_steps[0] - dilate_steps[1])
    res.nontrivial = case.kills >= 1 or max_cands[0] >= 2 or bool(sep)
    res.notes["candidate_lost_while_awaiting_accept"] += awaiting_killed[0]
    res.notes["lost_while_follower_still_connecting"] += half_killed[0]
    res.features = dict(kills=common.bucket(case.kills, [0, 1, 2, 4]), cand_kills=cand_killed[0], awaiting=awaiting_killed[0], relay=P["relay"],
                        nl="%d%d" % tuple(P["no_listen"]), cands=min(max_cands[0], 3), late="/".join(P["dilate_at"]), aged=aged)
    for (exc, frame, msg) in case.errors:
        res.notes["errlog:%s@%s" % (exc, frame)] += 1
    res.notes["kills"] += case.kills
    res.trace = dilworld.trace_of(case)
    res.steps = case.W.steps
    res.sample = dict(params={k: v for k, v in P.items() if k != "tape"}, kills=case.kills, kill_info=case.kill_info[:4])
    return res


def _same_link(a, b):
    if getattr(a, "peer", None) is b:
        return True
    p = unwrap(getattr(a.peer, "protocol", None))
    buddy = getattr(p, "_buddy", None)
    bt = getattr(getattr(buddy, "_client", None), "transport", None) if buddy is not None else None
    return getattr(bt, "peer", None) is b
