# C07 - Transit picks exactly one connection, chosen by the sender, key holders only.
import json
from hypothesis import strategies as st
from runner import CaseResult
from props import common
from simworld import World, Tape, NodeReactor
from twisted.internet import protocol, defer
from twisted.python import failure
CASE_WALL_S = 30

ID = "C07"
TIERS = {"quick": dict(examples=4000), "thorough": dict(examples=120000)}
RULE = ("Real TransitSender.connect() and TransitReceiver.connect() on the simulated network: listener on/off per "
        "side, 0-2 unreachable hints each way, the real transit relay on/off (one shared relay, or a different one "
        "per side), optionally an earlier Transit pair of the same process keyed differently, 0-3 rogues that dial a listener or "
        "sit behind a hint (silent; random bytes; correct handshake prefix then garbage or nothing; handshake "
        "made with another key; the correct peer handshake without 'go'; 'nevermind'; relay token + junk), an "
        "optional 'no honest path' mode (every honest attempt refused, or - through a fake Tor manager - stalled forever), optionally connect() called late on one "
        "side so that the peer finishes a handshake first; every connection attempt and every byte of every "
        "handshake is scheduled by the tape. After both connect() calls resolve, a late prober holding the key "
        "dials any listener that is still open. Oracle at quiescence: honest path => both connect() fire with "
        "Connections that are the two ends of one link; on it the receiver end wrote the full receiver handshake "
        "and the sender end wrote the sender handshake + 'go'; the sender wrote 'go' on no other link; every "
        "other link's honest end is closed; no rogue end is on the selected link; a late prober never gets 'go' "
        "and its link is closed. No honest path => both connect() have FAILED within 2*TIMEOUT (+relay delays) "
        "of virtual time, never pending. Non-trivial = >=2 contenders established, or >=1 rogue, or no-path. "
        "Distinct = (features, event-kind trace).")
RULE += (' Added later: 0-2 strangers that reach a listener between get_connection_hints() and set_transit_key().')
ASSUMPTIONS = ["simulated TCP per DESIGN 2.1", "a rogue may replay an observed handshake only without a trailing 'go' "
               "(the handshake strings are constants derived from the key; replay with 'go' is inherent to the protocol)",
               "TimeoutMixin timers run on the simulated clock"]

ROGUE_KINDS = ["silent", "random", "prefix-garbage", "prefix-only", "wrongkey", "nogo", "nevermind", "relayjunk"]


@st.composite
def cases(draw, tier="quick"):
    c = {}
    c["nl_s"] = draw(st.sampled_from([False, False, True]))
    c["nl_r"] = draw(st.sampled_from([False, False, True]))
    c["relay"] = draw(st.sampled_from([False, True]))
    # the two sides are configured with different relays: each then has two relay hints of equal priority
    c["relay2"] = c["relay"] and draw(st.booleans())
    # ... or the same relay configured under another host name on the other side (two relay hints, one relay)
    c["relay_alias"] = c["relay"] and not c["relay2"] and draw(st.booleans())
    if c["nl_s"] and c["nl_r"] and not c["relay"]:
        c["nl_r"] = False
    c["bogus"] = [draw(st.integers(0, 2)), draw(st.integers(0, 2))]
    c["nxdomain"] = draw(st.integers(0, 3)) == 0
    c["rogues"] = draw(st.lists(st.tuples(st.sampled_from(ROGUE_KINDS), st.sampled_from(["dial-s", "dial-r", "hint-s", "hint-r"]),
                                          st.integers(0, 90)).map(list), max_size=3))
    c["nopath"] = draw(st.integers(0, 6)) == 0
    # "tor": both sides reach the network only through a (fake) Tor manager: no listeners, every attempt goes
    # through tor.stream_via(); "stall" = those streams never resolve on their own (an unreachable peer over Tor)
    c["tor"] = draw(st.sampled_from([None, None, None, "pass", "stall"]))
    if c["tor"] == "stall":
        c["nopath"] = True
    if c["tor"] == "pass":
        c["relay"] = True
    # strangers that reach a listener before the transit key is known (the listener starts with
    # get_connection_hints(), the key arrives later from the key exchange): [side, script kind]
    c["early"] = draw(st.lists(st.tuples(st.sampled_from(["s", "r"]), st.sampled_from(["silent", "silent", "random"])).map(list),
                               max_size=2)) if draw(st.integers(0, 3)) == 0 else []
    c["late"] = draw(st.sampled_from([None, None, "s", "r"]))
    # the rogue listeners behind hints answer the SYN only 70 s after the start (a slow or far endpoint): such a
    # contender is still in the middle of its handshake when a connect() without any path reaches its deadline
    c["slow_rogues"] = draw(st.integers(0, 3)) == 0
    # this process has run an earlier transfer under another transit key (the key the "wrongkey" rogues hold)
    c["prior"] = draw(st.booleans())
    # "tape": connect() is called at a tape-chosen moment; "after": only once everything the early
    # side can do on its own has happened (the peer may have completed a handshake by then)
    c["late_when"] = draw(st.sampled_from(["tape", "after"]))
    n = draw(st.integers(0, 300))
    c["tape"] = draw(st.binary(min_size=n, max_size=n))
    return c


def strategy(tier):
    return cases(tier)


def unwrap(p):
    return getattr(p, "_wrappedProtocol", p)


from zope.interface import implementer
from wormhole._interfaces import ITorManager
from twisted.internet.endpoints import TCP4ClientEndpoint


class _StallEndpoint:
    """a Tor stream that never completes (and never fails) unless cancelled"""
    def __init__(self, log):
        self.log = log

    def connect(self, factory):
        d = defer.Deferred(lambda d_: self.log.append("cancelled"))
        self.log.append("started")
        return d


@implementer(ITorManager)
class FakeTor:
    def __init__(self, reactor, stall):
        self.reactor, self.stall = reactor, stall
        self.log = []

    def stream_via(self, host, port, tls=False):
        if self.stall:
            return _StallEndpoint(self.log)
        return TCP4ClientEndpoint(self.reactor, "10.9.9.9" if not host[0].isdigit() else host, port)


class Rogue(protocol.Protocol):
    def __init__(self, script):
        self.script = script
        self.got = b""

    def connectionMade(self):
        if self.script:
            self.transport.write(self.script)

    def dataReceived(self, d):
        self.got += d


class RogueF(protocol.ClientFactory):
    def __init__(self, script):
        self.script = script
        self.protos = []

    def buildProtocol(self, addr):
        p = Rogue(self.script)
        self.protos.append(p)
        return p


def rogue_script(kind, toward_sender, key, param):
    from wormhole.transit import build_sender_handshake, build_receiver_handshake
    wrong = b"\x42" * 32
    good = build_receiver_handshake(key) if toward_sender else build_sender_handshake(key)
    cut = 1 + param % (len(good) - 1)
    if kind == "silent":
        return b""
    if kind == "random":
        return bytes((param * 7 + k * 13) % 256 for k in range(1 + param))
    if kind == "prefix-garbage":
        return good[:cut] + b"X" + good[cut + 1:]
    if kind == "prefix-only":
        return good[:cut]
    if kind == "wrongkey":
        return (build_receiver_handshake(wrong) if toward_sender else build_sender_handshake(wrong) + b"go\n")
    if kind == "nogo":
        # a party that observed the genuine sender handshake may replay it to the receiver, but cannot
        # say go.  (Replaying the receiver handshake to the sender is indistinguishable from the real
        # receiver - inherent to the protocol - so towards the sender this rogue sends only a prefix.)
        return good if not toward_sender else good[:cut]
    if kind == "nevermind":
        return good + b"nevermind\n" if not toward_sender else good[:cut] + b"nevermind\n"
    return b"please relay " + bytes((param + k) % 16 + 97 for k in range(64)) + b" for side abcd\n" + good[:cut]


def run_case(c):
    from wormhole.transit import (TransitSender, TransitReceiver, Connection, build_sender_handshake,
                                  build_receiver_handshake, TIMEOUT)
    res = CaseResult()
    tape = Tape(c["tape"])
    W = World(b"c07" + bytes(c["tape"][:16]) + json.dumps(c["rogues"]).encode())
    try:
        key = b"\x5a" * 32
        relay_url = W.start_relay() if c["relay"] else None
        ns = NodeReactor(W, "S", "10.0.0.1")
        nr = NodeReactor(W, "R", "10.0.0.2")
        nx = NodeReactor(W, "X", "10.0.0.3")
        tor_s = tor_r = None
        if c.get("tor"):
            tor_s, tor_r = FakeTor(ns, c["tor"] == "stall"), FakeTor(nr, c["tor"] == "stall")
        prior_done = None
        if c.get("prior"):
            # an earlier Transit pair of this process, keyed differently, got as far as producing its handshakes
            try:
                for cls in (TransitSender, TransitReceiver):
                    o = cls(None, no_listen=True, reactor=NodeReactor(W, "P", "10.0.0.7"))
                    o.set_transit_key(b"\x42" * 32)
                    o._send_this()
                    o._expect_this()
                prior_done = True
            except AttributeError:
                prior_done = False       # cannot be staged on this tree: the case runs without it
        s = TransitSender(relay_url, no_listen=c["nl_s"], tor=tor_s, reactor=ns)
        relay_url_r = W.start_relay(port=4002, ip="10.0.0.201") if c.get("relay2") else relay_url
        if c.get("relay_alias") and relay_url:
            relay_url_r = "tcp:relay-alias.example:4001"      # (ports are global in the simulated network)
        r = TransitReceiver(relay_url_r, no_listen=c["nl_r"], tor=tor_r, reactor=nr)
        hs, hr = [], []
        s.get_connection_hints().addCallback(hs.extend)
        r.get_connection_hints().addCallback(hr.extend)
        rogue_factories = []
        n_early = 0
        for (side, kind) in c.get("early") or []:
            ports = [h["port"] for h in (hs if side == "s" else hr) if h.get("type") == "direct-tcp-v1"]
            if not ports:
                continue
            f = RogueF(rogue_script(kind, side == "s", key, 7))
            rogue_factories.append(f)
            nx.connectTCP("10.0.0.x", ports[0], f)
            n_early += 1
        if n_early:
            # the strangers' connections are established (and whatever they and the listener write is
            # delivered) before the key exchange has produced the transit key
            for _ in range(60):
                ev = [e for e in W.enabled() if e[0].startswith("net.")]
                if not ev:
                    break
                try:
                    W.do(ev[0], None)
                except Exception:
                    pass
        s.set_transit_key(key)
        r.set_transit_key(key)
        rogue_ports = set()
        rogue_listen_hints = {"s": [], "r": []}
        for (kind, where, param) in c["rogues"]:
            if where.startswith("hint-"):
                # a rogue listener that one side is told to dial
                side = where[-1]
                toward_sender = (side == "s")
                f = protocol.ServerFactory()
                script = rogue_script(kind, toward_sender, key, param)
                rf = RogueF(script)
                f.buildProtocol = rf.buildProtocol
                port = nx.listenTCP(0, f)
                rogue_factories.append(rf)
                rogue_listen_hints[side].append({"type": "direct-tcp-v1", "hostname": "10.0.0.3",
                                                 "port": port.portnum, "priority": 0.0})
                rogue_ports.add(port.portnum)
                if c.get("slow_rogues"):
                    W.net.slow_ports.add(port.portnum)
        bogus_s = [{"type": "direct-tcp-v1", "hostname": "10.0.0.9", "port": 1000 + i, "priority": 0.0}
                   for i in range(c["bogus"][0])]
        bogus_r = [{"type": "direct-tcp-v1", "hostname": "10.0.0.9", "port": 1100 + i, "priority": 0.0}
                   for i in range(c["bogus"][1])]
        if c.get("nxdomain"):
            # hints whose host name does not resolve: that contender fails at once, before anybody has won
            bogus_s = bogus_s + [{"type": "direct-tcp-v1", "hostname": "peer-laptop.invalid", "port": 1200, "priority": 0.0}]
            bogus_r = bogus_r + [{"type": "direct-tcp-v1", "hostname": "peer-desktop.invalid", "port": 1201, "priority": 0.0}]
        s.add_connection_hints(hr + bogus_s + rogue_listen_hints["s"])
        r.add_connection_hints(hs + bogus_r + rogue_listen_hints["r"])
        result = {}
        t0 = W.clock.seconds()
        started = {"s": False, "r": False}

        at_resolution = {}
        pending_check = []

        def resolved(x, which):
            result[which] = (x, W.clock.seconds())
            if "s" in result and "r" in result and not at_resolution and not pending_check:
                # judged as soon as the scheduler event that resolved the second connect() has
                # finished (Twisted's endpoint canceller errbacks first and stops the attempt right
                # after, inside the same call chain)
                pending_check.append(1)

        slow_release = [70.0 if c.get("slow_rogues") and W.net.slow_ports else None]
        if slow_release[0] is not None:
            W.clock.callLater(slow_release[0], lambda: None)        # makes virtual time stop at that instant

        def check_at_resolution():
            if slow_release[0] is not None and W.clock.seconds() - t0 >= slow_release[0]:
                slow_release[0] = None
                W.net.slow_ports.clear()
            if pending_check and not at_resolution:
                sel = [getattr(result[k][0], "transport", None) for k in ("s", "r")]
                open_losers = []
                for l in W.net.all_links:
                    for t in (l.a, l.b):
                        p = unwrap(t.protocol)
                        if t in sel or not isinstance(p, Connection) or t.owner not in (ns, nr):
                            continue
                        if not t.lost and not t.closing:
                            open_losers.append((t.owner.name, p.state))
                at_resolution["open_losers"] = open_losers
                at_resolution["pending"] = [(cn.node.name, cn.host, cn.port) for cn in W.net.pending if cn.node in (ns, nr)]
                at_resolution["dialled"] = len([d_ for d_ in W.net.dialled if d_[0] in ("S", "R")])
                at_resolution["ok"] = all(isinstance(result[k][0], Connection) for k in ("s", "r"))

        def start(which):
            started[which] = True
            d = (s if which == "s" else r).connect()
            d.addBoth(resolved, which)
        for which in ("s", "r"):
            if c["late"] != which:
                start(which)
        honest_ports = {h["port"]: "s" for h in hs if h.get("type") == "direct-tcp-v1"}
        honest_ports.update({h["port"]: "r" for h in hr if h.get("type") == "direct-tcp-v1"})
        for (kind, where, param) in c["rogues"]:
            if where.startswith("dial-"):
                side = where[-1]
                ports = [p for p, sd in honest_ports.items() if sd == side]
                if not ports:
                    continue
                toward_sender = (side == "s")
                f = RogueF(rogue_script(kind, toward_sender, key, param))
                rogue_factories.append(f)
                nx.connectTCP("10.0.0.x", ports[param % len(ports)], f)
        nopath = c["nopath"]
        established = [0]

        def is_honest_connector(cn):
            return not isinstance(cn.factory, RogueF)
        steps = 0
        escaped = []
        while steps < 4000:
            steps += 1
            ev = W.enabled()
            choices = [(10, e) for e in ev]
            if c["late"] and not started[c["late"]] and c.get("late_when", "tape") == "tape":
                choices.append((2, ("start", c["late"])))
            if c["late"] and not started[c["late"]] and not choices:
                start(c["late"])
                check_at_resolution()
                continue
            if not choices:
                nt = W.next_timer()
                if nt is None or ("s" in result and "r" in result):
                    break
                if nt - t0 > 2 * TIMEOUT + 60:
                    break
                W.clock.advance(nt - W.clock.seconds())
                check_at_resolution()
                continue
            e = tape.weighted(choices) if not tape.exhausted() else choices[0][1]
            if e[0] == "start":
                start(e[1])
                check_at_resolution()
                continue
            arg = None
            if e[0] == "net.deliver":
                arg = tape.choice([1, 1, 2, 7, 30, None, None]) if not tape.exhausted() else None
            if e[0] == "net.connect":
                if nopath and is_honest_connector(e[1]) and e[1].node in (ns, nr) and e[1].port not in rogue_ports:
                    arg = "refuse"          # (no HONEST path: the rogues behind hints can still be reached)
                elif e[1].node in (ns, nr):
                    established[0] += 1
            try:
                W.do(e, arg)
            except Exception as ex:
                escaped.append((e[0], ex))
            check_at_resolution()
        for which in ("s", "r"):
            if not started[which]:
                start(which)
                check_at_resolution()
        check_at_resolution()
        st_ = pump(W, 2 * TIMEOUT + 60, 6000, check_at_resolution)
        S, R = result.get("s"), result.get("r")

        def ok(x):
            return x is not None and isinstance(x[0], Connection)
        honest_path = not nopath
        info = "listen S/R=%s/%s relay=%s rogues=%r late=%r" % (not c["nl_s"], not c["nl_r"], c["relay"], c["rogues"], c["late"])
        if S is None or R is None:
            res.violate("deadline", "connect() still pending after %.0f virtual seconds (sender resolved=%s, receiver "
                        "resolved=%s, settle=%s); %s" % (W.clock.seconds() - t0, S is not None, R is not None, st_, info),
                        input_class="connect-hangs:%s" % ("nopath" if nopath else "path"))
        elif nopath:
            if ok(S) or ok(R):
                res.violate("one", "a Connection was returned although every honest attempt was refused; %s" % info,
                            input_class="winner-without-path")
            for x, who in ((S, "sender"), (R, "receiver")):
                if x[1] - t0 > 2 * TIMEOUT + 20:
                    res.violate("deadline", "%s connect() failed only after %.0f s" % (who, x[1] - t0),
                                input_class="late-failure")
        else:
            if not (ok(S) and ok(R)):
                res.violate("one", "an honest path exists but connect() gave sender=%r receiver=%r; %s" % (
                    _short(S), _short(R), info), input_class="no-winner-with-honest-path")
            else:
                cs, cr = S[0], R[0]
                ts, tr = cs.transport, cr.transport
                if not _same_link(ts, tr):
                    res.violate("one", "the two connect() results are not the two ends of one link; %s" % info,
                                input_class="different-links")
                else:
                    sh, rh = build_sender_handshake(key), build_receiver_handshake(key)
                    ws_, wr_ = bytes(ts.wlog), bytes(tr.wlog)
                    if not (ws_.endswith(sh + b"go\n") or (sh + b"go\n") in ws_):
                        res.violate("one", "sender end of the selected link wrote %r" % ws_[-120:],
                                    input_class="sender-end-without-handshake+go")
                    if rh not in wr_:
                        res.violate("one", "receiver end of the selected link wrote %r" % wr_[-120:],
                                    input_class="receiver-end-without-handshake")
                if cs.state != "records" or cr.state != "records":
                    res.violate("one", "states %r/%r" % (cs.state, cr.state), input_class="result-not-in-records-state")
                go_links = 0
                for l in W.net.all_links:
                    for t in (l.a, l.b):
                        p = unwrap(t.protocol)
                        if t.owner is ns and isinstance(p, Connection) and b"go\n" in bytes(t.wlog):
                            go_links += 1
                        if t is ts or t is tr:
                            continue
                        if isinstance(p, Connection) and t.owner in (ns, nr) and not t.lost and not t.closing:
                            res.violate("others-closed", "a losing connection (state %r, owner %s) is still open; %s" % (
                                p.state, t.owner.name, info), input_class="loser-left-open:%s" % p.state)
                if go_links != 1:
                    res.violate("one", "the sender wrote 'go' on %d links" % go_links, input_class="go-on-%d-links" % go_links)
                for f in rogue_factories:
                    for p in f.protos:
                        if p.transport is not None and (p.transport.peer is ts or p.transport.peer is tr):
                            res.violate("keyholders", "a rogue end is on the selected link; %s" % info,
                                        input_class="rogue-selected")
        if at_resolution and not at_resolution.get("ok"):
            # a connect() that gave up (deadline, no contender left) leaves nothing open or half-negotiated behind
            failed_sides = {"S" if k == "s" else "R" for k in ("s", "r") if not isinstance(result[k][0], Connection)}
            left = [x for x in at_resolution["open_losers"] if x[0] in failed_sides]
            if left:
                res.violate("others-closed", "connect() failed, but connections of that side were still open when both "
                            "calls had resolved: %r; %s" % (left, info), input_class="contender-open-after-failed-connect")
        if at_resolution.get("ok"):
            if at_resolution["open_losers"]:
                res.violate("others-closed", "when both connect() calls had returned their Connection, other "
                            "connections were still open: %r; %s" % (at_resolution["open_losers"], info),
                            input_class="loser-open-at-resolution")
            if at_resolution["pending"]:
                res.violate("others-closed", "when both connect() calls had returned, connection attempts were still "
                            "pending: %r; %s" % (at_resolution["pending"], info), input_class="attempt-pending-at-resolution")
            later = len([d_ for d_ in W.net.dialled if d_[0] in ("S", "R")]) - at_resolution["dialled"]
            if later > 0:
                res.violate("others-closed", "%d new connection attempt(s) were started after both connect() calls "
                            "had returned their Connection; %s" % (later, info), input_class="dial-after-resolution")
        # ---- late prober holding the key dials whatever honest listener is still open
        probes = []
        if S is not None and R is not None:
            for port, side in sorted(honest_ports.items()):
                if port in W.net.ports and W.net.ports[port].listening:
                    toward_sender = side == "s"
                    script = (build_receiver_handshake(key) if toward_sender else build_sender_handshake(key) + b"go\n")
                    f = RogueF(script)
                    probes.append((f, side))
                    nx.connectTCP("10.0.0.x", port, f)
            if probes:
                W.settle(max_time=2 * TIMEOUT + 60, max_steps=3000)
                for f, side in probes:
                    for p in f.protos:
                        if b"go\n" in p.got:
                            res.violate("one", "after connect() had resolved (%s), a late connection to the %s's "
                                        "still-open listener was confirmed with 'go'; %s" % (
                                            "ok" if ok(S) else "failed", "sender" if side == "s" else "receiver", info),
                                        input_class="late-connection-confirmed")
                        t = p.transport.peer
                        if not t.lost and not t.closing:
                            res.violate("others-closed", "a late connection to the %s's still-open listener was left "
                                        "open; %s" % ("sender" if side == "s" else "receiver", info),
                                        input_class="late-connection-left-open")
        for kind, ex in escaped:
            res.violate("errlog", "exception escaped %s: %r" % (kind, ex), input_class="escaped:%s" % type(ex).__name__,
                        exc=type(ex).__name__)
        for (exc, frame, msg) in W.error_summaries():
            if n_early and exc == "AssertionError" and frame and frame.endswith("_send_this"):
                # a connection that arrives before set_transit_key(): the pinned code asserts in connectionMade,
                # the exception is logged and the stranger is never selected. The statement promises no silence
                # here; tallied as an observation (DESIGN 9.5)
                res.notes["early_connection_assertion_logged"] += 1
                continue
            if frame is not None or exc in ("NoTransition", "AssertionError", "TypeError", "KeyError", "AttributeError"):
                res.violate("errlog", "logged %s at %s: %s" % (exc, frame, msg), input_class="errlog:%s@%s" % (exc, frame),
                            exc=exc, frame=frame)
                break
        res.nontrivial = established[0] >= 2 or bool(c["rogues"]) or nopath
        res.features = dict(early=n_early, nl="%d%d" % (c["nl_s"], c["nl_r"]), relay=("two" if c.get("relay2") else "alias" if c.get("relay_alias") else c["relay"]), rogues=len(c["rogues"]), nopath=nopath,
                            slow=bool(c.get("slow_rogues")), prior=str(prior_done),
                            late=c["late"] or "-", tor=c.get("tor") or "-", est=common.bucket(established[0], [0, 1, 2, 4]),
                            probes=len(probes), ok=ok(S) and ok(R))
        res.trace = ",".join(W.trace[:300])
        res.steps = W.steps
        res.sample = dict(case={k: v for k, v in c.items() if k != "tape"}, sender=_short(S), receiver=_short(R),
                          links=len(W.net.all_links), virtual_seconds=round(W.clock.seconds() - t0, 1))
    finally:
        W.close()
    return res


def pump(W, max_time, max_steps, after_each):
    """fair FIFO run to quiescence, calling after_each() after every event"""
    t_end = W.clock.seconds() + max_time
    n = 0
    while n < max_steps:
        ev = W.enabled()
        if ev:
            e = ev[n % len(ev)]
            W.do(e, len(e[1].s2c) if e[0] == "mb.s2c" else None)
            after_each()
            n += 1
            continue
        nt = W.next_timer()
        if nt is None:
            return "quiescent"
        if nt > t_end:
            return "time"
        W.clock.advance(nt - W.clock.seconds())
        after_each()
        n += 1
    return "steps"


def _same_link(a, b):
    if getattr(a, "peer", None) is b:
        return True
    # through the relay: a - relay - b ; the relay glues two links
    return _relay_partner(a) is b


def _relay_partner(t):
    p = unwrap(getattr(t.peer, "protocol", None))
    buddy = getattr(p, "_buddy", None)
    if buddy is None:
        return None
    bt = getattr(getattr(buddy, "_client", None), "transport", None)
    return getattr(bt, "peer", None)


def _short(x):
    if x is None:
        return "pending"
    v = x[0]
    if isinstance(v, failure.Failure):
        return "Failure(%s)" % type(v.value).__name__
    return type(v).__name__
