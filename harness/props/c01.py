# C01 - session key is bound to the wormhole code: agree iff codes (NFC) and appid match.
import json, unicodedata
from hypothesis import strategies as st
from runner import CaseResult
import mbworld
from props import common
from wormhole.errors import WrongPasswordError, LonelyError, NoKeyError, WormholeError
CASE_WALL_S = 12

ID = "C01"
TIERS = {"quick": dict(examples=1500), "thorough": dict(examples=40000)}
RULE = ("Code pairs: a base code (numeric nameplate + '-' + 0-4 'words' over an alphabet rich in characters with "
        "distinct NFC/NFD spellings, ligatures, case pairs, hyphens) and a peer code that is identical / the other "
        "normalisation form / its NFKC compatibility folding (which NFC must not identify) / one character substituted, inserted, deleted / case-flipped / another nameplate "
        "(7 vs 07, 7 vs 8) / same code under another appid; entry by set_code, allocate_code (+ optionally "
        "perturbed copy) or input_code with the words chosen late (peer PAKE before local code). Where nameplate or "
        "appid differ a message-level man-in-the-middle rewrites one side's bind/claim so the two still meet. "
        "Schedules with `message` reordering, 0-3 sends per side. Oracle, with same := NFC(codeA)==NFC(codeB) and "
        "equal appids computed independently by the harness: same => equal verifiers, equal unverified keys, "
        "derive_key(p,n) equal on both sides for generated (p,n), different for different purposes (n>=16), "
        "versions+messages delivered; not same => NO verifier/versions/message event on either side at any step, "
        "every side that was delivered a non-PAKE peer message closes WrongPasswordError by itself. derive_key "
        "before a key => NoKeyError. Non-trivial = not same, or same with differing spellings, or the Key machine "
        "took the PAKE-before-code path. Distinct = (features, trace).")
RULE += (' Added later: the two applications may use different API styles (one delegated, one Deferred); purposes that are not in NFC form; long pass-phrase codes (50-140 characters) that differ only at the tail; graceful server closes through the WebSocket CLOSING window.')
ASSUMPTIONS = ["SPAKE2/NaCl hardness is not tested, only the binding structure", "simulated mailbox link, real server",
               "'different bytes for different purposes' only asserted for n>=16 (collision 2^-128)"]

ALPH = ["a", "b", "é", "é", "Å", "Å", "ß", "ﬁ", "한", "한", "x", "Q", "q",
        "-", "ö", "ö", "1", "purple", "sausages", "Ω", "Ω"]

ALPH += ["\u00b2", "\uff11", "\uff46", "\u338f", "fi"]
COMPAT = ["\ufb01", "\u00b2", "\uff11", "\uff46", "\u338f", "\u01c6", "\ufb00"]   # changed by NFKC, untouched by NFC


# purposes that differ only by padding-like suffixes (a KDF that pads or truncates its inputs confuses them)
NEAR_PURPOSES = [["p\x00", 16], ["transit", 32], ["transit\x00", 32], ["transit\x00\x00", 32], ["", 16], ["\x00", 16]]


@st.composite
def cases(draw, tier="quick"):
    P = {}
    words = "".join(draw(st.lists(st.sampled_from(ALPH), min_size=0, max_size=5)))
    if draw(st.integers(0, 5)) == 0:
        words = draw(st.text(alphabet=st.characters(blacklist_categories=("Cs", "Zs", "Cc"), blacklist_characters="     　"), max_size=6))
    words = "".join(ch for ch in words if not ch.isspace())
    np_ = str(draw(st.integers(1, 99)))
    kind = draw(st.sampled_from(["same", "same", "nfd", "nfc", "subst", "case", "ins", "del", "np0", "np1", "appid",
                                 "allocsame", "allocsfx", "compat", "compat", "longtail", "surrogate"]))
    if kind == "surrogate":
        # codes taken from argv in a non-UTF-8 locale: undecodable bytes appear as lone surrogates
        j = draw(st.integers(0, len(words)))
        words = words[:j] + draw(st.sampled_from(["\udce9", "\udce8", "\udcff"])) + words[j:]
    if kind == "longtail":
        # long pass-phrase codes (beyond one hash block) that differ only near the end, or not at all
        words = "".join(draw(st.lists(st.sampled_from(ALPH), min_size=50, max_size=140)))
        words = "".join(ch for ch in words if not ch.isspace())
    if kind == "compat":
        # codes that differ only by a compatibility mapping (NFKC), which NFC must NOT identify
        j = draw(st.integers(0, len(words)))
        words = words[:j] + draw(st.sampled_from(COMPAT)) + words[j:]
    wb, npb = words, np_
    if kind == "nfd":
        wb = unicodedata.normalize("NFD", words)
    elif kind == "nfc":
        wb = unicodedata.normalize("NFC", words)
    elif kind == "subst" and words:
        j = draw(st.integers(0, len(words) - 1))
        wb = words[:j] + draw(st.sampled_from(ALPH)) + words[j + 1:]
    elif kind == "case":
        wb = words.swapcase()
    elif kind == "ins":
        j = draw(st.integers(0, len(words)))
        wb = words[:j] + draw(st.sampled_from(ALPH)) + words[j:]
    elif kind == "del" and words:
        j = draw(st.integers(0, len(words) - 1))
        wb = words[:j] + words[j + 1:]
    elif kind == "compat":
        wb = unicodedata.normalize("NFKC", words)
    elif kind == "longtail":
        how = draw(st.sampled_from(["same", "last", "last", "append", "drop"]))
        if how == "last":
            wb = words[:-1] + ("q" if words[-1:] != "q" else "r")
        elif how == "append":
            wb = words + draw(st.sampled_from(["x", "-", "0"]))
        elif how == "drop":
            wb = words[:-1]
    elif kind == "surrogate":
        how = draw(st.sampled_from(["same", "other", "other", "question"]))
        sur = [ch for ch in words if "\udc80" <= ch <= "\udcff"][0]
        if how == "other":
            wb = words.replace(sur, "\udce7" if sur != "\udce7" else "\udce6", 1)
        elif how == "question":
            wb = words.replace(sur, "?", 1)
    elif kind == "np0":
        npb = "0" + np_
    elif kind == "np1":
        npb = str(int(np_) + 1)
    wb = "".join(ch for ch in wb if not ch.isspace())
    P["kind"] = kind
    P["codes"] = [np_ + "-" + words, npb + "-" + wb]
    P["appids"] = ["appid", "appid2" if kind == "appid" else "appid"]
    if kind == "appid" and draw(st.booleans()):
        # application ids that differ only in letter case (of the DNS part, or of the path)
        P["appids"] = draw(st.sampled_from([["Example.com/backup-tool", "example.com/backup-tool"],
                                            ["lothar.com/Wormhole", "lothar.com/wormhole"], ["APPID", "appid"]]))
    if kind in ("allocsame", "allocsfx"):
        P["codemode"] = ["alloc", draw(st.sampled_from(["fromA", "input"]))]
        if kind == "allocsfx":
            P["code_suffix"] = [None, draw(st.sampled_from(["x", "-", "1", "́"]))]
    else:
        P["codemode"] = draw(st.sampled_from([["set", "set"], ["set", "set"], ["set", "input"], ["input", "set"],
                                              ["input", "input"]]))
    P["mode"] = draw(st.sampled_from(["delegate", "deferred"]))
    # the two applications need not use the same API style
    P["modes"] = draw(st.sampled_from([None, None, ["delegate", "deferred"], ["deferred", "delegate"]]))
    payload = st.one_of(st.just(b""), st.binary(max_size=16))
    P["sends"] = [draw(st.lists(payload, max_size=3)), draw(st.lists(payload, max_size=3))]
    P["reorder"] = draw(st.booleans())
    P["compat_purposes"] = draw(st.sampled_from([["of\ufb01ce", "office"], ["x\u00b2", "x2"], ["\uff11", "1"]]))
    P["purposes"] = draw(st.lists(st.tuples(st.text(min_size=1, max_size=12).filter(lambda t: "\ud800" > t or True),
                                            st.integers(1, 128)).map(list), min_size=1, max_size=3))
    # purposes that are not in NFC form (a decomposed file name, Hangul jamo): both sides are handed the same string
    P["purposes"] = P["purposes"] + [[draw(st.sampled_from(["Ame\u0301lie.txt", "transit/\u1112\u1161\u11ab", "A\u030a", "e\u0301" * 3])), draw(st.sampled_from([16, 32]))]]
    n = draw(st.integers(0, 200))
    P["closing_drops"] = draw(st.booleans())   # graceful server closes pass through the WebSocket CLOSING state
    P["tape"] = draw(st.binary(min_size=n, max_size=n))
    return P


def strategy(tier):
    return cases(tier)


def run_case(P):
    res = CaseResult()
    codeA, codeB = P["codes"]
    sfx = (P.get("code_suffix") or [None, None])[1]
    alloc = P["codemode"][0] == "alloc"
    if alloc:
        same_code = not sfx
    else:
        same_code = unicodedata.normalize("NFC", codeA) == unicodedata.normalize("NFC", codeB)
    same = same_code and P["appids"][0] == P["appids"][1]
    force = (not alloc and codeA.split("-")[0] != codeB.split("-")[0]) or P["appids"][0] != P["appids"][1]
    early = []
    derive = {}

    def setup(rec):
        W = rec.world
        for i in range(2):
            try:
                rec.ws[i].derive_key("p", 16)
                early.append(i)
            except NoKeyError:
                pass
            except Exception as ex:
                rec.api_exc.append((("derive-early", i), ex))
        if force:
            npA = codeA.split("-")[0]

            def filt(c, payload):
                if c.svc is not W.services[1]:
                    if P["appids"][0] != P["appids"][1] and b'"bind"' in payload:
                        # (both binds are rewritten to one value, whatever spelling the clients put on the wire)
                        m = json.loads(payload)
                        if m.get("type") == "bind":
                            m["appid"] = P["appids"][0]
                            return json.dumps(m).encode()
                    return payload
                m = json.loads(payload)
                if m.get("type") == "bind":
                    m["appid"] = P["appids"][0]
                if "nameplate" in m and m.get("type") in ("claim", "release"):
                    m["nameplate"] = npA
                return json.dumps(m).encode()
            W.c2s_filter = filt

    leaked = []

    def on_step(rec):
        if same or leaked:
            return
        for i in range(2):
            for k in rec.kinds(i):
                if k in ("verifier", "versions", "msg"):
                    leaked.append((i, k, rec.step))

    def at_stable(rec):
        for i in range(2):
            out = []
            for (p, n) in P["purposes"] + [[P["compat_purposes"][0], 16], [P["compat_purposes"][1], 16]] + NEAR_PURPOSES + [["p", 16], ["q", 16]]:
                try:
                    out.append(rec.ws[i].derive_key(p, n))
                except NoKeyError:
                    out.append(None)
                except Exception as ex:
                    out.append(ex)
            derive[i] = out

    rec = mbworld.run(P, on_step=on_step, setup=setup, at_stable=at_stable)
    res.steps = rec.world.steps
    if rec.api_exc and any(not isinstance(ex, WormholeError) for _, ex in rec.api_exc):
        it, ex = [(a, b) for a, b in rec.api_exc if not isinstance(b, WormholeError)][0]
        res.notes["api_exception"] += 1
    rejected = [ex for it, ex in rec.api_exc if type(ex).__name__ == "KeyFormatError"]
    if rejected:
        res.features = dict(kind=P["kind"], rejected=True)
        res.notes["code_rejected_as_malformed"] += 1
        return res
    if not all(s == "quiescent" for s in rec.settle):
        res.inconclusive = True
    for i in early:
        res.violate("nokey", "side %d: derive_key before any key did not raise NoKeyError" % i,
                    input_class="derive-before-key-succeeded")
    snap = rec.stable_snapshot
    s01 = any(t[0] == "K" and "S01" in str(t[1]) + str(t[3]) for i in range(2) for t in rec.trans[i])
    unencodable = any("\ud800" <= ch <= "\udfff" for ch in codeA + codeB)
    if unencodable:
        # a code that cannot be encoded as UTF-8 (lone surrogates from undecodable argv bytes) is not usable text:
        # the pinned code refuses it with UnicodeEncodeError. Only the safety direction is asserted for such codes:
        # two different ones never yield a verifier, versions or a message
        res.notes["unencodable_code_cases"] += 1
    if same and not res.inconclusive and not unencodable:
        ok = True
        for i in range(2):
            k = snap["kinds"][i]
            if "verifier" not in k or "versions" not in k or snap["msgs"][i] != snap["sent"][1 - i]:
                ok = False
                res.violate("agree", "same code (kind %s, %r / %r, modes %r) but side %d has events %r, msgs %d/%d" % (
                    P["kind"], codeA, codeB, P["codemode"], i, k, len(snap["msgs"][i]), len(snap["sent"][1 - i])),
                    input_class="same-code-no-agreement:%s" % P["kind"])
        if ok:
            for what in ("verifier", "key"):
                v = [[e[1] for e in rec.evs[i] if e[0] == what] for i in range(2)]
                if v[0] and v[1] and v[0][0] != v[1][0]:
                    res.violate("agree", "%s differs between the sides" % what, input_class="%s-differs" % what)
            d0, d1 = derive.get(0), derive.get(1)
            if d0 is None or d1 is None or any(x is None or isinstance(x, Exception) for x in d0 + d1):
                res.violate("derive", "derive_key failed after key agreement: %r %r" % (d0, d1),
                            input_class="derive-key-failed")
            else:
                plist = P["purposes"] + [[P["compat_purposes"][0], 16], [P["compat_purposes"][1], 16]] + NEAR_PURPOSES + [["p", 16], ["q", 16]]
                for j, (p, n) in enumerate(plist):
                    if d0[j] != d1[j] or len(d0[j]) != n:
                        res.violate("derive", "derive_key(%r,%d) differs between sides or has wrong length" % (p, n),
                                    input_class="derive-key-differs")
                if d0[-1] == d0[-2]:
                    res.violate("derive", "derive_key gives the same bytes for purposes 'p' and 'q'",
                                input_class="derive-key-ignores-purpose")
                for j in range(len(plist)):
                    for k2 in range(j + 1, len(plist)):
                        if plist[j][0] != plist[k2][0] and plist[j][1] == plist[k2][1] and plist[j][1] >= 16 \
                                and d0[j] == d0[k2]:
                            res.violate("derive", "same bytes for purposes %r and %r" % (plist[j][0], plist[k2][0]),
                                        input_class="derive-key-ignores-purpose")
    if not same:
        if leaked:
            i, k, step = leaked[0]
            res.violate("bound", "codes differ (kind %s: %r vs %r, appids %r, modes %r) but side %d got a %s event" % (
                P["kind"], codeA, codeB + (sfx or ""), P["appids"], P["codemode"], i, k),
                input_class="event-delivered-despite-different-code:%s" % P["kind"])
        if not res.inconclusive and not unencodable:
            for i in range(2):
                heard = any(j == i and m.get("type") == "message" and m.get("phase") != "pake"
                            and m.get("side") != rec.ws[i]._boss._side for (j, n, m, s) in rec.delivered)
                heard_pake = any(j == i and m.get("type") == "message" and m.get("phase") == "pake"
                                 and m.get("side") != rec.ws[i]._boss._side for (j, n, m, s) in rec.delivered)
                v = rec.verdict[i]
                if heard and heard_pake:
                    if not isinstance(v, WrongPasswordError):
                        res.violate("bound", "side %d heard the peer (different code, kind %s) but closed with %r" % (
                            i, P["kind"], v), input_class="no-WrongPasswordError:%s" % P["kind"])
                    elif rec.close_called[i] is not None and rec.phase != "close" and False:
                        pass
    res.nontrivial = (not same) or (same and codeA != codeB) or s01
    res.features = dict(kind=P["kind"], same=same, modes="/".join(P["codemode"]), s01=s01, forced=force,
                        api=P["mode"])
    res.trace = mbworld.abstract_trace(rec)
    res.sample = dict(codes=[codeA, codeB + (sfx or "")], appids=P["appids"], modes=P["codemode"], same=same,
                      verdicts=[mbworld.verdict_name(v) for v in rec.verdict], events=[rec.kinds(0), rec.kinds(1)])
    return res
