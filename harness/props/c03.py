# C03 - mailbox messages arrive in order, exactly once, unmodified.
from hypothesis import strategies as st
from runner import CaseResult
import mbworld
CASE_WALL_S = 12
from props import common

ID = "C03"
TIERS = {"quick": dict(examples=2000), "thorough": dict(examples=60000)}
RULE = ("Hypothesis generates (message lists per direction incl. empty/equal/large payloads and 11-14-message histories, code-entry method, "
        "API style, a schedule tape, a budget of 0-5 connection losses, server-side duplication/reordering of "
        "`message` events); two real clients + the real mailbox server run in the simulated world under that "
        "tape. Oracle: after EVERY step the messages received by each side are a positional prefix of the peer's "
        "send_message arguments; at quiescence after stabilisation they are equal. Non-trivial = >=2 messages in "
        "one direction AND (>=1 dup/reorder applied to a queued `message`, or >=1 connection loss). Distinct = "
        "distinct (feature vector, abstract event-kind trace).")
RULE += (' Added later: one side may call close() in the middle of the exchange (the prefix oracle keeps running, the completeness clause is then not asserted); graceful server closes pass through the WebSocket CLOSING window (sendMessage raises).')
ASSUMPTIONS = ["simulated WebSocket layer delivers whole JSON messages (DESIGN 2.1)",
               "real wormhole_mailbox_server protocol object and sqlite db in memory",
               "liveness judged at quiescence within a step budget after faults stop"]


@st.composite
def cases(draw, tier="quick"):
    P = {}
    P["mode"] = draw(st.sampled_from(["delegate", "deferred"]))
    P["codemode"] = draw(st.sampled_from([["set", "set"], ["alloc", "fromA"], ["set", "input"],
                                          ["alloc", "input"], ["input", "set"]]))
    payload = st.one_of(st.just(b""), st.binary(max_size=40), st.sampled_from([b"same", b"\x00", b"same"]),
                        st.binary(min_size=2000, max_size=3000))
    P["sends"] = [draw(st.lists(payload, max_size=8)), draw(st.lists(payload, max_size=8))]
    if draw(st.integers(0, 40)) == 0:
        P["sends"][0] = P["sends"][0] + [b"\xa5" * 65536]
    if draw(st.integers(0, 7)) == 0:
        # a long one-directional history (two-digit phase numbers), tiny payloads
        side = draw(st.integers(0, 1))
        P["sends"][side] = [b"%d" % k for k in range(draw(st.integers(11, 16)))]
        if draw(st.booleans()):
            # ... read by a reader that asks for all of them at once, late
            P["many_gets"] = True
    if draw(st.integers(0, 30)) == 0:
        # a backlog of more than a hundred tiny messages, read back to back in one reactor turn
        side = draw(st.integers(0, 1))
        P["sends"][side] = [b"%d" % k for k in range(draw(st.integers(104, 130)))]
        P["many_gets"] = True
        P["huge_backlog"] = True
        P["mode"] = "deferred"
    P["drops"] = draw(st.sampled_from([0, 0, 1, 2, 3, 5]))
    P["dup"] = draw(st.booleans())
    P["reorder"] = draw(st.booleans())
    P["gets"] = draw(st.sampled_from(["early", "tape", "late"]))
    # either side may also be dilating (w.dilate(no_listen=True) at a tape-chosen moment): its dilate-N control
    # records travel through the same mailbox, numbered separately from the application phases
    P["dilate"] = draw(st.sampled_from([[False, False], [False, False], [True, False], [False, True], [True, True]]))
    P["extra_msg_gets"] = draw(st.sampled_from([0, 1, 2, 3]))
    if P.get("many_gets"):
        # fewer requests than messages, so that the callbacks' follow-up reads find buffered messages too
        P["get_burst"] = draw(st.integers(11, 13)) if not P.get("huge_backlog") else draw(st.integers(101, 104))
        P["gets"] = "late"
    if P["dilate"] == [True, True] and P["mode"] == "deferred" and draw(st.booleans()):
        # both dilating: their dilate-N control records and the application phases are reordered together
        P["reorder"] = True
        slow = draw(st.integers(0, 1))
        P["w_s2c"] = [1 if slow == 0 else 10, 1 if slow == 1 else 10]
        P["w_adv"] = 6
        if len(P["sends"][1 - slow]) < 2:
            P["sends"][1 - slow] = P["sends"][1 - slow] + [b"d0", b"d1"]
    elif draw(st.integers(0, 2)) == 0:
        # one side reads slowly: its inbound queue builds up, so dup/reorder act on many messages at once
        slow = draw(st.integers(0, 1))
        P["w_s2c"] = [1 if slow == 0 else 10, 1 if slow == 1 else 10]
        P["w_adv"] = draw(st.sampled_from([3, 6]))
    if draw(st.integers(0, 3)) == 0:
        # one side calls close() in the middle of the exchange (possibly while later phases are parked behind a
        # missing one): what it has received up to and after that moment must still be a prefix
        P["closes"] = [[draw(st.integers(0, 1)), draw(st.sampled_from([None, "verifier", "msg", "msg"]))]]
        P["reorder"] = P["reorder"] or draw(st.booleans())
    # the two applications need not use the same API style
    P["modes"] = draw(st.sampled_from([None, None, None, ["delegate", "deferred"], ["deferred", "delegate"]]))
    P["w_due"] = draw(st.sampled_from([None, None, 1, 2]))      # eventual-send turns may lag behind the network
    P["gets_lag"] = draw(st.booleans())      # a reader that calls get_message() only after messages have arrived
    n = draw(st.integers(0, 260))
    P["closing_drops"] = draw(st.booleans())   # graceful server closes pass through the WebSocket CLOSING state
    P["tape"] = draw(st.binary(min_size=n, max_size=n))
    return P


def strategy(tier):
    return cases(tier)


def run_case(P):
    res = CaseResult()
    bad = []

    def on_step(rec):
        if bad:
            return
        for i in range(2):
            got = rec.msgs(i)
            exp = rec.sent[1 - i]
            if got != exp[:len(got)]:
                bad.append((i, rec.step, got, list(exp)))

    rec = mbworld.run(P, on_step=on_step)
    res.steps = rec.world.steps
    if bad:
        i, step, got, exp = bad[0]
        res.violate("prefix", "side %d at step %d received %r, peer sent %r" % (
            i, step, common.short(got), common.short(exp)), input_class="received-not-prefix-of-sent")
    snap = rec.stable_snapshot
    settled = all(s == "quiescent" for s in rec.settle)
    if any(s == "reconnect-loop" for s in rec.settle) and not bad:
        # no fault is injected during stabilisation: a session that keeps losing and re-making its server
        # connection there is raising on what it receives, and nothing more will ever be delivered
        res.violate("complete", "fault-free stabilisation kept reconnecting (%r): the exchange never completes; errors %r" % (
            rec.settle, rec.errors[:2]), input_class="reconnect-loop-without-faults")
    elif not settled:
        res.inconclusive = True
    elif not bad and not P.get("closes"):
        for i in range(2):
            if snap["msgs"][i] != snap["sent"][1 - i]:
                res.violate("complete", "side %d got %d of %d messages at quiescence: %r vs %r" % (
                    i, len(snap["msgs"][i]), len(snap["sent"][1 - i]), common.short(snap["msgs"][i]),
                    common.short(snap["sent"][1 - i])), input_class="not-all-delivered-at-quiescence")
    res.notes["api_exceptions"] += len(rec.api_exc)
    res.notes["early_close_cases"] += int(bool(P.get("closes")))
    nmsg = max(len(P["sends"][0]), len(P["sends"][1]))
    advn = rec.adv["dup"] + rec.adv["swap"]
    res.nontrivial = nmsg >= 2 and (advn >= 1 or rec.drops >= 1)
    res.features = dict(mode=P["mode"], code="/".join(P["codemode"]), msgs=common.bucket(nmsg, [0, 1, 2, 4]),
                        adv=common.bucket(advn, [0, 1, 3]), drops=common.bucket(rec.drops, [0, 1, 2]),
                        gets=P["gets"] if P["mode"] == "deferred" else "-")
    res.notes["dup_applied"] += rec.adv["dup"]
    res.notes["swap_applied"] += rec.adv["swap"]
    res.notes["drops"] += rec.drops
    res.notes["drops_with_inflight"] += rec.inflight_at_drop
    res.trace = mbworld.abstract_trace(rec)
    res.sample = dict(params=P, received=[len(rec.msgs(0)), len(rec.msgs(1))], drops=rec.drops,
                      adv=dict(rec.adv), steps=rec.world.steps)
    return res
