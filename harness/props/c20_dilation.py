# C20, dilation driver: a real dilating peer sends the generated list in a `connection-hints` message
# (through its own Manager, so it is properly encrypted and numbered) while the victim is CONNECTING.
import dilworld
from props import c20 as base


STATES = ["WANTING", "CONNECTING", "CONNECTED", "FLUSHING", "LONELY", "ABANDONING", "STOPPING"]


def run_steered(c, res):
    """the connection-hints message reaches the victim's Manager while it is in a chosen state: a dilated pair
    is driven by the tape (losses of the link noticed by one side first, close()), and the moment a Manager is
    seen in the target state the decrypted message is handed to Manager.received_dilation_message, the entry
    point the property names; the run then continues to quiescence"""
    import json
    from wormhole.errors import WormholeError
    hints = [h for h in c["hints"] if isinstance(h, dict)]
    classes, nvalid = base.classify(hints)
    target = c["dil_state"]
    P = dict(tape=c.get("tape", b""), ops=[["listen", 0, "p"], ["listen", 1, "p"], ["open", 0, "p"], ["write", [0, 0], "o", 300]],
             kills=0, settle_time=20.0, max_reconnects=8, dilate_at=["start", "start"])
    if target == "WANTING":
        P["dilate_at"] = ["start", "tape"]
    if target in ("FLUSHING", "LONELY", "ABANDONING"):
        P.update(kills=0, kill_notify={"FLUSHING": "leader", "ABANDONING": "leader", "LONELY": "follower"}[target])
    if target == "CONNECTING" :
        P["no_listen"] = [True, True]
    case = dilworld.DilCase(P)
    case.setup()
    hit = []
    payload = json.dumps({"type": "connection-hints", "hints": hints}).encode()

    steer = []

    def after(cs):
        if hit:
            return
        if not steer and target in ("FLUSHING", "LONELY", "ABANDONING", "STOPPING"):
            ms_ = cs.managers()
            if all(m is not None and cs.state_name(m) == "CONNECTED" for m in ms_):
                if target == "STOPPING":
                    steer.append("close")
                    cs.remaining_intents = [it for it in getattr(cs, "remaining_intents", []) if it[0] != "wclose"]
                    cs._do_intent(["wclose", cs.tape.below(2) if not cs.tape.exhausted() else 0])
                else:
                    links = [l for l in cs.selected_links() if not l.a.broken]
                    if links:
                        steer.append("kill")
                        cs.do_kill(links[0])
        for i, m in enumerate(cs.managers()):
            if m is not None and cs.state_name(m) == target:
                hit.append(i)
                try:
                    m.received_dilation_message(payload)
                except Exception as ex:
                    res.violate("no-raise", "Manager.received_dilation_message raised %r for connection-hints %s while "
                                "the Manager was %s" % (ex, base._canon(hints), target),
                                input_class="dilation-hints-raise-in-%s:%s" % (target, type(ex).__name__),
                                exc=type(ex).__name__)
                if cs.state_name(m) != target:
                    res.violate("no-abort", "connection-hints %s moved the Manager from %s to %s" % (
                        base._canon(hints), target, cs.state_name(m)), input_class="dilation-manager-derailed-in-%s" % target)
                return
    try:
        case.install_traces()
        case.run(after_step=after)
        case.flush_intents(after_step=after)
        case.settles.append(case.settle(after_step=after))
        res.notes["steered_%s_%s" % (target, "hit" if hit else "not-reached")] += 1
        for (exc, frame, msg) in case.W.error_summaries():
            res.notes["dilation_logged_error:%s@%s" % (exc, frame)] += 1
        case.close_all()
        for i in range(2):
            for r in case.close_results[i]:
                v = getattr(r, "value", r)
                if hit and not (isinstance(v, str) or isinstance(v, WormholeError)):
                    res.violate("no-abort", "after connection-hints %s arrived in state %s the wormhole of side %d closed "
                                "with %r" % (base._canon(hints), target, i, v),
                                input_class="dilation-wormhole-errored-in-%s" % target, exc=type(v).__name__)
    finally:
        case.finish()
    return bool(hit)


def run(c, res):
    if c.get("dil_state"):
        return run_steered(c, res)
    hints = [h for h in c["hints"] if isinstance(h, dict)]
    classes, nvalid = base.classify(hints)
    # nobody listens and there is no relay: both Managers stay in CONNECTING, where hints are used
    P = dict(tape=c.get("tape", b""), ops=[], no_listen=[True, True], kills=0, settle_time=20.0)
    case = dilworld.DilCase(P)
    case.setup()
    try:
        case.run()
        case.settles.append(case.settle(max_time=5.0))
        ms = case.managers()
        if not all(m is not None and case.state_name(m) == "CONNECTING" for m in ms):
            res.inconclusive = True
            res.notes["dilation_setup_not_connecting"] += 1
            return
        victim, peer = ms[0], ms[1]
        before = set(case.W.net.dial_targets("n0"))
        try:
            peer.send_hints(hints)
        except Exception as ex:
            res.inconclusive = True
            res.notes["peer_could_not_send:%s" % type(ex).__name__] += 1
            return
        case.settles.append(case.settle(max_time=15.0))
        got = set(case.W.net.dial_targets("n0")) - before
        want = base.ref_targets(hints)
        optional = {(h_, p_) for (h_, p_) in want if base._bad_hostname(h_)}     # (the Connector keeps hints in lists)
        closed = [r for r in case.close_results[0]]
        boss_state = getattr(case.ws[0]._boss, "_trace_state", None)
        if case.state_name(victim) not in ("CONNECTING", "CONNECTED"):
            res.violate("no-abort", "after the peer's connection-hints %s the victim's Manager is in state %r" % (
                base._canon(hints), case.state_name(victim)), input_class="dilation-manager-derailed:%s" % "+".join(sorted(classes)))
        # errors that are caught and logged (log.err) neither raise to anyone nor abort the wormhole: the
        # statement does not forbid them, so they are tallied, not asserted
        for (exc, frame, msg) in case.W.error_summaries():
            res.notes["dilation_logged_error:%s@%s" % (exc, frame)] += 1
        # the wormhole must still be usable: it has not been closed with an error
        res_closed = []
        d = case.ws[0].close()
        d.addBoth(res_closed.append)
        case.closed_called[0] = case.step
        case.settles.append(case.settle(max_time=15.0))
        if res_closed:
            v = getattr(res_closed[0], "value", res_closed[0])
            from wormhole.errors import WormholeError
            if not (v == "happy" or isinstance(v, WormholeError)):
                res.violate("no-abort", "the victim wormhole was errored by the hints: close() gave %r; hints %s" % (
                    v, base._canon(hints)), input_class="dilation-wormhole-errored:%s" % "+".join(sorted(classes)),
                    exc=type(v).__name__)
        if not (got <= want and (want - got) <= optional):
            res.violate("filter", "victim dialled %r, reference filter gives %r; hints %s" % (
                sorted(got, key=repr), sorted(want, key=repr), base._canon(hints)),
                input_class="dilation-dialled-differs:%s" % "+".join(sorted(classes)))
        case.close_all()
    finally:
        case.finish()
