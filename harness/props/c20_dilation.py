# C20, dilation driver: a real dilating peer sends the generated list in a `connection-hints` message
# (through its own Manager, so it is properly encrypted and numbered) while the victim is CONNECTING.
import dilworld
from props import c20 as base


def run(c, res):
    hints = [h for h in c["hints"] if isinstance(h, dict)]
    classes, nvalid = base.classify(hints)
    # nobody listens and there is no relay: both Managers stay in CONNECTING, where hints are used
    P = dict(tape=c.get("tape", b""), ops=[], no_listen=[True, True], kills=0, settle_time=20.0)
    case = dilworld.DilCase(P)
    case.setup()
    try:
        case.run()
        case.settles.append(case.settle(max_time=5.0))
        ms = case.managers()
        if not all(m is not None and case.state_name(m) == "CONNECTING" for m in ms):
            res.inconclusive = True
            res.notes["dilation_setup_not_connecting"] += 1
            return
        victim, peer = ms[0], ms[1]
        before = set(case.W.net.dial_targets("n0"))
        try:
            peer.send_hints(hints)
        except Exception as ex:
            res.inconclusive = True
            res.notes["peer_could_not_send:%s" % type(ex).__name__] += 1
            return
        case.settles.append(case.settle(max_time=15.0))
        got = set(case.W.net.dial_targets("n0")) - before
        want = base.ref_targets(hints)
        optional = {(h_, p_) for (h_, p_) in want if base._bad_hostname(h_)} | (want & base._tor_pairs(hints))
        closed = [r for r in case.close_results[0]]
        boss_state = getattr(case.ws[0]._boss, "_trace_state", None)
        if case.state_name(victim) not in ("CONNECTING", "CONNECTED"):
            res.violate("no-abort", "after the peer's connection-hints %s the victim's Manager is in state %r" % (
                base._canon(hints), case.state_name(victim)), input_class="dilation-manager-derailed:%s" % "+".join(sorted(classes)))
        # errors that are caught and logged (log.err) neither raise to anyone nor abort the wormhole: the
        # statement does not forbid them, so they are tallied, not asserted
        for (exc, frame, msg) in case.W.error_summaries():
            res.notes["dilation_logged_error:%s@%s" % (exc, frame)] += 1
        # the wormhole must still be usable: it has not been closed with an error
        res_closed = []
        d = case.ws[0].close()
        d.addBoth(res_closed.append)
        case.closed_called[0] = case.step
        case.settles.append(case.settle(max_time=15.0))
        if res_closed:
            v = getattr(res_closed[0], "value", res_closed[0])
            from wormhole.errors import WormholeError
            if not (v == "happy" or isinstance(v, WormholeError)):
                res.violate("no-abort", "the victim wormhole was errored by the hints: close() gave %r; hints %s" % (
                    v, base._canon(hints)), input_class="dilation-wormhole-errored:%s" % "+".join(sorted(classes)),
                    exc=type(v).__name__)
        if not (got <= want and (want - got) <= optional):
            res.violate("filter", "victim dialled %r, reference filter gives %r; hints %s" % (
                sorted(got, key=repr), sorted(want, key=repr), base._canon(hints)),
                input_class="dilation-dialled-differs:%s" % "+".join(sorted(classes)))
        case.close_all()
    finally:
        case.finish()
