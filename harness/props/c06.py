# C06 - Transit delivers exactly the records sent, or drops the connection.
import struct, time
from zope.interface import implementer
from hypothesis import strategies as st
from runner import CaseResult
from props import common
from simworld import Tape
from twisted.internet import interfaces, defer
from twisted.python import failure
CASE_WALL_S = 30

ID = "C06"
TIERS = {"quick": dict(examples=20000), "thorough": dict(examples=400000)}
RULE = ("A real transit Connection pair (owners: real TransitSender/TransitReceiver with a shared transit key) "
        "negotiates over byte pipes (real handshake incl. 'go'), then 0-12 records per direction (sizes 0, 1, "
        "around 2^16, random <=70000; bursts of up to 40 small ones) are sent at tape-chosen moments and delivered "
        "in tape-chosen chunks (1 byte, few bytes, straddling the 4-byte length and 24-byte nonce, whole). Receive "
        "modes: receive_record() issued before/after arrival, connectConsumer(expected=None), "
        "writeToFile(expected=k) with k below/at/above the total. 0-1 manipulation of the ciphertext stream (the statement quantifies over single-point manipulations) by a "
        "party without the key: flip a byte (length prefix / nonce / body / tag), delete a record, swap two, "
        "replay an earlier one, inject a random frame, replay a frame from the other direction, truncate "
        "mid-record and close. Oracle: per direction the delivered records (or consumer bytes) are at every step "
        "a prefix of what was sent, up to the first manipulated record exclusive; without manipulation equality "
        "at the end and the connection still up (also across idle pauses of 61 s, and with the sender's 'go' "
        "coalesced with its first records); after a complete manipulated frame the receiver's transport was told to close and nothing "
        "later is surfaced; when the stream ends every outstanding receive_record()/consumer Deferred has failed. "
        "Non-trivial = >=2 records with one split across chunks, or a manipulation that reached the receiver. "
        "Distinct = (features, size/chunk/op trace).")
ASSUMPTIONS = ["byte pipes deliver in order", "NaCl SecretBox is trusted", "reads issued after the drop are measured, "
               "not asserted (the statement speaks of pending reads)"]

SIZES = [0, 1, 2, 16, 65495, 65496, 65535, 65536, 65537, 16384, 16383]


@st.composite
def cases(draw, tier="quick"):
    c = {}
    rec = st.one_of(st.sampled_from(SIZES), st.integers(0, 200), st.integers(0, 200), st.integers(0, 70000)).map(
        lambda n: n)
    c["recs"] = [draw(st.lists(rec, max_size=12)), draw(st.lists(rec, max_size=6))]
    if draw(st.integers(0, 9)) == 0:
        c["recs"][0] = [draw(st.integers(0, 40)) for _ in range(draw(st.integers(17, 40)))]
    c["mode"] = [draw(st.sampled_from(["read-early", "read-late", "read-mixed", "consumer", "tofile-exact",
                                       "tofile-below", "tofile-above", "chain"])) for _ in range(2)]
    c["cpause"] = draw(st.booleans())      # consumers ask for a pause from inside write() and resume a moment later
    c["ops"] = draw(st.lists(st.sampled_from(["flip-len", "flip-nonce", "flip-body", "flip-tag", "delete", "swap",
                                              "replay", "inject", "cross", "truncate"]), max_size=1))
    if draw(st.integers(0, 2)) == 0:
        c["ops"] = []
    c["victim"] = draw(st.integers(0, 1))      # which end RECEIVES the manipulated stream (0=sender side)
    c["hparam"] = draw(st.integers(0, 2 ** 24))
    # the sender's "go" is still in flight when it starts sending records, so TCP may coalesce the two
    c["hold_go"] = draw(st.integers(0, 2)) == 0
    # pauses of 61 simulated seconds (longer than the negotiation timeout) at tape-chosen points
    c["idle"] = draw(st.sampled_from([0, 0, 0, 1, 2]))
    # at the very end the sender of that direction sends two more records and closes at once (as `wormhole
    # receive` does with its acknowledgement); the receiver asks for them only after it has seen the close
    c["fin"] = draw(st.sampled_from([None, None, 0, 1]))
    n = draw(st.integers(0, 200))
    c["tape"] = draw(st.binary(min_size=n, max_size=n))
    return c


def strategy(tier):
    return cases(tier)


@implementer(interfaces.ITransport, interfaces.IConsumer, interfaces.IPushProducer)
class Pipe:
    def __init__(self):
        self.chunks = []          # list of bytes objects written, in order
        self.lose = 0
        self.disconnecting = False
        self.paused = False
        self.producer = None

    def write(self, data):
        assert isinstance(data, bytes)
        if not self.lose and data:
            self.chunks.append(data)

    def writeSequence(self, seq):
        for s in seq:
            self.write(s)

    def loseConnection(self):
        self.lose += 1
        self.disconnecting = True

    def getPeer(self):
        return None

    def getHost(self):
        return None

    def registerProducer(self, p, streaming):
        self.producer = p

    def unregisterProducer(self):
        self.producer = None

    def pauseProducing(self):
        self.paused = True

    def resumeProducing(self):
        self.paused = False

    def stopProducing(self):
        self.loseConnection()


class _Factory:
    def connectionWasMade(self, p):
        pass


class Sink:
    """minimal file-like for writeToFile"""
    def __init__(self):
        self.data = bytearray()

    def write(self, b):
        self.data += b


class ChainSink:
    """two files written one after the other: writeToFile(first, n1), and from its completion callback
    writeToFile(second, n2)"""
    def __init__(self):
        self.first, self.second = Sink(), Sink()
        self.results = [None, None]

    @property
    def data(self):
        return self.first.data + self.second.data


def payload(i, k, n):
    return bytes([(i * 131 + k * 7 + 1) % 256]) * n


def establish(hold_go=False):
    from wormhole import transit
    from twisted.internet.task import Clock
    key = b"\x07" * 32
    clock = Clock()
    s = transit.TransitSender(None, no_listen=True, reactor=clock)
    r = transit.TransitReceiver(None, no_listen=True, reactor=clock)
    s.set_transit_key(key)
    r.set_transit_key(key)
    ends = []
    for owner in (s, r):
        c = transit.Connection(owner, None, time.time(), "sim")
        c.factory = _Factory()
        c.callLater = lambda period, func, clock=clock: clock.callLater(period, func)   # TimeoutMixin on the sim clock
        t = Pipe()
        c.makeConnection(t)
        ends.append([c, t])
    ds = [ends[0][0].startNegotiation(), ends[1][0].startNegotiation()]
    res = [[], []]
    ds[0].addBoth(res[0].append)
    ds[1].addBoth(res[1].append)
    held = []
    for _ in range(20):
        moved = False
        for i in range(2):
            c, t = ends[i]
            while t.chunks:
                moved = True
                ch = t.chunks.pop(0)
                if hold_go and i == 0 and ch == b"go\n":
                    held.append(ch)          # stays in flight: the caller delivers it with the record stream
                    continue
                ends[1 - i][0].dataReceived(ch)
        if not moved:
            break
    if held:
        ok = bool(res[0]) and res[0][0] is ends[0][0] and ends[0][0].state == "records" and not res[1]
    else:
        ok = all(x and x[0] is ends[i][0] for i, x in enumerate(res)) and all(e[0].state == "records" for e in ends)
    ends[1].append(res[1])
    return ends, ok, clock, b"".join(held)


def run_case(c):
    from wormhole import transit
    from twisted.internet import error
    res = CaseResult()
    tape = Tape(c["tape"])
    ends, ok, clock, held_go = establish(bool(c.get("hold_go")))
    if not ok:
        res.violate("setup", "honest handshake over pipes did not reach 'records': %r" % [e[0].state for e in ends],
                    input_class="handshake-failed")
        return res
    victim = c["victim"]
    conns = [ends[0][0], ends[1][0]]
    pipes = [ends[0][1], ends[1][1]]
    # direction d = records sent BY end d (received by end 1-d)
    sent = [[], []]
    pending = [[payload(d, k, n) for k, n in enumerate(c["recs"][d])] for d in range(2)]
    total = [sum(len(x) for x in pending[d]) for d in range(2)]
    frames = [[], []]          # undelivered frames per direction: [bytes, record index or None, tag]
    history = [[], []]         # every genuine frame ever sent per direction
    part = [0, 0]              # bytes of frames[d][0] already delivered
    got = [[], []]             # records surfaced at receiver of direction d (= end 1-d)
    reads = [[], []]           # Deferred bookkeeping per receiver end
    sinks = [None, None]
    cons_d = [None, None]
    errs = []
    first_affected = [None, None]      # per direction
    complete_bad = [False, False]      # a complete manipulated frame has been fed to the receiver
    stream_ended = [False, False]
    ops = list(c["ops"])
    applied = []
    split = [0]
    dropped_exc = [None, None]

    class FC:
        """IConsumer for connectConsumer(expected=None)"""
        def __init__(self, d):
            self.d = d
            self.data = []

        def registerProducer(self, p, streaming):
            self.p = p
            self.want_resume = False

        def unregisterProducer(self):
            pass

        def write(self, b):
            self.data.append(b)
            if c.get("cpause") and getattr(self, "p", None) is not None:
                # a flow-controlled consumer: asks for a pause from inside write() and resumes a moment later
                self.p.pauseProducing()
                self.want_resume = True

    def resume_consumers():
        for s_ in sinks:
            if isinstance(s_, FC) and getattr(s_, "want_resume", False):
                s_.want_resume = False
                s_.p.resumeProducing()

    def issue_read(e):
        d = conns[e].receive_record()
        entry = dict(result=None)
        reads[e].append(entry)
        d.addCallbacks(lambda r, entry=entry: (entry.__setitem__("result", ("ok", r)), got[1 - e].append(r)) and None,
                       lambda f, entry=entry: entry.__setitem__("result", ("err", f.value)) and None)

    # receive-mode setup for each receiving end e (receives direction 1-e); an end whose negotiation has
    # not finished (the "go" is still in flight) is set up the moment its connect() result fires
    ready = [True, not held_go]
    nego_result = ends[1][2]
    if held_go:
        frames[0].append([held_go, -1, "genuine"])

    def setup(only):
        try:
            _setup_modes(c, conns, pending, total, sinks, cons_d, issue_read, FC, only=only)
        except Exception as ex:
            res.violate("api", "receive-mode setup (%r) raised %r" % (c["mode"], ex),
                        input_class="consumer-setup-raises:%s" % type(ex).__name__, exc=type(ex).__name__)
            return False
        return True
    if not setup([e for e in range(2) if ready[e]]):
        return res
    for e in range(0):
        mode = c["mode"][e]
        d_in = 1 - e
        if mode == "read-early":
            for _ in range(len(pending[d_in]) + 1):
                issue_read(e)
        elif mode == "consumer":
            sinks[e] = FC(e)
            conns[e].connectConsumer(sinks[e], expected=None)
        elif mode.startswith("tofile"):
            k = total[d_in] + {"exact": 0, "below": -max(1, total[d_in] // 3), "above": 5}[mode.split("-")[1]]
            k = max(0, k)
            sinks[e] = Sink()
            dd = conns[e].writeToFile(sinks[e], k)
            cons_d[e] = dict(result=None, expected=k)
            if dd is not None:
                dd.addCallbacks(lambda r, e=e: cons_d[e].__setitem__("result", ("ok", r)),
                                lambda f, e=e: cons_d[e].__setitem__("result", ("err", f.value)))

    def collect(d):
        """move what end d wrote into the frame queue of direction d"""
        t = pipes[d]
        while t.chunks:
            ln = t.chunks.pop(0)
            enc = t.chunks.pop(0) if t.chunks else b""
            fr = ln + enc
            idx = len(history[d])
            frames[d].append([fr, idx, "genuine"])
            history[d].append(fr)

    def apply_op(d):
        """manipulate the undelivered part of direction d (towards the victim)"""
        op = ops[0]
        q = frames[d]
        lo = 1 if part[d] else 0          # frames entirely undelivered start here
        if q and q[0][1] == -1:
            lo = 1                        # the in-flight "go" is not a record; it is never manipulated
        whole = q[lo:]
        hp = c["hparam"] + 7919 * len(applied)      # a second operation must not undo the first
        done = False
        if op.startswith("flip") and whole:
            j = lo + hp % len(whole)
            fr = bytearray(q[j][0])
            region = op.split("-")[1]
            if region == "len":
                off = hp // 3 % 4
            elif region == "nonce":
                off = 4 + hp // 3 % 24
            elif region == "tag":
                off = 4 + 24 + hp // 3 % 16
            else:
                off = 4 + 24 + 16 + (hp // 3 % max(1, len(fr) - 44)) if len(fr) > 44 else 4 + 24 + hp // 3 % 16
            off = min(off, len(fr) - 1)
            fr[off] ^= 1 << (hp // 11 % 8)
            q[j] = [bytes(fr), q[j][1], "flip-" + region]
            done = True
            aff = q[j][1]
        elif op == "delete" and whole:
            j = lo + hp % len(whole)
            aff = q[j][1]
            del q[j]
            # (deleting the last record is invisible to the receiver until another one follows:
            # the record is simply never delivered, which the prefix clause allows)
            done = True
        elif op == "swap" and len(whole) >= 2:
            j = lo + hp % (len(whole) - 1)
            if q[j][0] != q[j + 1][0]:
                aff = q[j][1]
                q[j], q[j + 1] = q[j + 1], q[j]
                q[j][2] = q[j + 1][2] = "swapped"
                done = True
        elif op == "replay" and history[d]:
            src = history[d][hp % len(history[d])]
            pos = lo + (hp // 5 % (len(whole) + 1))
            nxt = q[pos][1] if pos < len(q) else len(history[d])
            # replaying record k exactly where record k is expected is not a manipulation
            k_src = history[d].index(src)
            # a copy of record k delivered exactly where k is expected IS record k; the genuine
            # frame that follows is then the replay
            aff = nxt + 1 if k_src == nxt else nxt
            q.insert(pos, [src, aff, "replayed"])
            done = True
        elif op == "inject":
            n = [0, 1, 24, 40, 41, 100][hp % 6]
            body = bytes((hp + k) % 256 for k in range(n))
            pos = lo + (hp // 5 % (len(whole) + 1))
            aff = q[pos][1] if pos < len(q) else len(history[d])
            q.insert(pos, [struct.pack(">L", n) + body, aff, "injected"])
            done = True
        elif op == "cross" and history[1 - d]:
            src = history[1 - d][hp % len(history[1 - d])]
            pos = lo + (hp // 5 % (len(whole) + 1))
            aff = q[pos][1] if pos < len(q) else len(history[d])
            q.insert(pos, [src, aff, "cross"])
            done = True
        elif op == "truncate" and whole:
            j = lo + hp % len(whole)
            fr = q[j][0]
            cut = 1 + hp // 3 % max(1, len(fr) - 1)
            aff = q[j][1]
            q[j] = [fr[:cut], q[j][1], "truncated"]
            del q[j + 1:]
            q[j].append("eof")
            done = True
        if done:
            ops.pop(0)
            applied.append(op)
            if aff is not None and (first_affected[d] is None or aff < first_affected[d]):
                first_affected[d] = aff
        return done

    def deliver(d, n):
        """feed up to n bytes of direction d to its receiver (end 1-d)"""
        e = 1 - d
        q = frames[d]
        if not q:
            return
        data = bytearray()
        while q and (n is None or len(data) < n):
            fr, idx, tag = q[0][0], q[0][1], q[0][2]
            rest = fr[part[d]:]
            take = len(rest) if n is None else min(len(rest), n - len(data))
            data += rest[:take]
            part[d] += take
            if part[d] >= len(fr):
                if tag != "genuine" and tag != "truncated" and not tag.startswith("flip-len"):
                    complete_bad[d] = True
                if len(q[0]) > 3:
                    stream_ended[d] = True
                q.pop(0)
                part[d] = 0
            else:
                split[0] += 1
                break
        if pipes[e].lose or not data:
            return
        try:
            conns[e].dataReceived(bytes(data))
        except Exception as ex:
            # Twisted logs the exception and drops the connection
            dropped_exc[e] = ex
            pipes[e].lose += 1
        if not ready[e] and nego_result and nego_result[0] is conns[e]:
            ready[e] = True
            setup([e])

    CH = [1, 1, 2, 3, 4, 5, 23, 24, 25, 28, 44, 100, 70000, None, None]
    idle_left = [int(c.get("idle") or 0)]
    idles = [0]
    for step in range(6000):
        resume_consumers()
        for d in range(2):
            collect(d)
        choices = []
        for d in range(2):
            if frames[d] and not pipes[1 - d].lose:
                choices += ["deliver%d" % d] * 3
            if pending[d] and not pipes[d].lose and not stream_ended[d] and ready[d]:
                choices += ["send%d" % d] * 2
        for e in range(2):
            if c["mode"][e] in ("read-late", "read-mixed") and len(reads[e]) < len(c["recs"][1 - e]) + 1 and ready[e]:
                choices.append("read%d" % e)
        if idle_left[0] > 0 and choices and all(ready):      # (a negotiation may legitimately time out)
            choices.append("idle")
        d_v = 1 - victim
        if ops and (frames[d_v] or history[d_v]) and not pipes[victim].lose:
            choices.append("op")
        if not choices:
            break
        ch = choices[tape.below(len(choices))]
        if ch == "idle":
            idle_left[0] -= 1
            idles[0] += 1
            clock.advance(61.0)
            continue
        if ch == "op":
            if not apply_op(d_v):
                if not frames[d_v] and not pending[d_v]:
                    ops.pop(0)
            continue
        if ch.startswith("send"):
            d = int(ch[4])
            rec = pending[d].pop(0)
            try:
                conns[d].send_record(rec)
                sent[d].append(rec)
            except Exception as ex:
                res.violate("send", "send_record raised %r" % ex, input_class="send_record-raises", exc=type(ex).__name__)
                break
            continue
        if ch.startswith("read"):
            issue_read(int(ch[4]))
            continue
        d = int(ch[7])
        deliver(d, CH[tape.below(len(CH))] if not tape.exhausted() else None)
        check_prefix(res, c, sent, got, sinks, first_affected, errs)
        if errs:
            break
    # flush: send and deliver everything that is left, no more manipulation
    for _ in range(400):
        resume_consumers()
        for d in range(2):
            while pending[d] and not pipes[d].lose and not stream_ended[d] and ready[d]:
                rec = pending[d].pop(0)
                conns[d].send_record(rec)
                sent[d].append(rec)
            collect(d)
        if not any(frames[d] and not pipes[1 - d].lose for d in range(2)):
            break
        for d in range(2):
            if frames[d] and not pipes[1 - d].lose:
                deliver(d, None)
    resume_consumers()
    for e in range(2):
        if c["mode"][e] in ("read-late", "read-mixed"):
            while len(reads[e]) < len(c["recs"][1 - e]) + 1 and not pipes[e].lose and ready[e]:
                issue_read(e)
    check_prefix(res, c, sent, got, sinks, first_affected, errs)
    # hung-up clause
    for d in range(2):
        e = 1 - d
        if len(applied) == 1 and complete_bad[d] and first_affected[d] is not None and not pipes[e].lose:
            res.violate("drop", "direction %d: a complete manipulated frame (%s) was received but the receiver did "
                        "not close its transport (state %r)" % (d, applied, conns[e].state),
                        input_class="not-dropped-after:%s" % "+".join(applied))
    # an honest, established connection is never dropped by the code itself: nothing was manipulated, the
    # stream was not cut, yet an end told its transport to close (e.g. after an idle pause)
    if not applied and not any(stream_ended) and any(p.lose for p in pipes) and not dropped_exc[0] and not dropped_exc[1]:
        res.violate("roundtrip", "no manipulation and no cut, but end(s) %r closed the connection after %d of %d / %d of "
                    "%d records (idle pauses of 61 s: %d)" % ([e for e in range(2) if pipes[e].lose], len(got[0]),
                                                              len(sent[0]), len(got[1]), len(sent[1]), idles[0]),
                    input_class="honest-connection-dropped")
    for e in range(2):
        if not applied and dropped_exc[e] is not None:
            res.violate("roundtrip", "no manipulation, but dataReceived at end %d raised %r" % (e, dropped_exc[e]),
                        input_class="honest-stream-raises:%s" % type(dropped_exc[e]).__name__,
                        exc=type(dropped_exc[e]).__name__)
    # end of stream: TCP reports the loss to both ends
    any_drop = any(p.lose for p in pipes) or any(stream_ended)
    if any_drop:
        for e in range(2):
            try:
                conns[e].connectionLost(failure.Failure(error.ConnectionDone()))
            except Exception as ex:
                res.violate("drop", "connectionLost raised %r" % ex, input_class="connectionLost-raises",
                            exc=type(ex).__name__)
        for e in range(2):
            for entry in reads[e]:
                if entry["result"] is None:
                    res.violate("drop", "end %d: a receive_record() issued before the drop never fired" % e,
                                input_class="pending-read-never-failed")
                    break
            cd = cons_d[e]
            if cd is not None and cd["result"] is None:
                res.violate("drop", "end %d: writeToFile(expected=%d) Deferred never fired after the drop" % (
                    e, cd["expected"]), input_class="consumer-deferred-never-failed")
    else:
        # honest completion: everything sent was surfaced
        for d in range(2):
            e = 1 - d
            mode = c["mode"][e]
            if first_affected[d] is not None:
                continue
            if not ready[e]:
                res.violate("roundtrip", "end %d: the whole honest stream (handshake, go, %d records) was delivered but "
                            "its negotiation never completed (state %r)" % (e, len(sent[d]), conns[e].state),
                            input_class="negotiation-never-completed")
                continue
            if mode.startswith("read"):
                if got[d] != sent[d]:
                    res.violate("roundtrip", "direction %d: %d of %d records surfaced (%s vs %s)" % (
                        d, len(got[d]), len(sent[d]), common.short(got[d]), common.short(sent[d])),
                        input_class="records-missing")
            elif mode == "chain":
                cs = sinks[e]
                n1, n2 = cons_d[e]["chain"]
                want = b"".join(sent[d])
                if n1 > 0 and n2 > 0 and len(want) == n1 + n2 and (
                        bytes(cs.first.data) != want[:n1] or bytes(cs.second.data) != want[n1:] or
                        cs.results[0] is None or cs.results[1] is None):
                    res.violate("roundtrip", "direction %d: writeToFile(%d) then, from its callback, writeToFile(%d): files "
                                "hold %d and %d bytes, results %r" % (d, n1, n2, len(cs.first.data), len(cs.second.data),
                                                                       [x[0] if x else None for x in cs.results]),
                                input_class="chained-tofile-mismatch")
            elif mode == "consumer":
                if b"".join(sinks[e].data) != b"".join(sent[d]):
                    res.violate("roundtrip", "direction %d: consumer got %d bytes of %d" % (
                        d, len(b"".join(sinks[e].data)), len(b"".join(sent[d]))), input_class="consumer-bytes-missing")
            else:
                want = b"".join(sent[d])
                k = cons_d[e]["expected"]
                have = bytes(sinks[e].data)
                if have != want[:len(have)] or (len(want) >= k and cons_d[e]["result"] is None and k > 0) or \
                        (len(want) < k and len(have) != len(want)):
                    res.violate("roundtrip", "direction %d: writeToFile(expected=%d) wrote %d bytes, sent %d, "
                                "deferred %r" % (d, k, len(have), len(want), cons_d[e]["result"]),
                                input_class="tofile-mismatch")
    if not any_drop and not applied and c.get("fin") is not None and not res.violations and \
            c["mode"][1 - c["fin"]].startswith("read") and all(ready):
        d = c["fin"]
        e = 1 - d
        n0 = len(got[d])
        tail = [b"tail-one", b"tail-two" * 900]
        try:
            for x in tail:
                conns[d].send_record(x)
            conns[d].close()
            collect(d)
            pipes[d].lose = 0                  # (harness pipe: let the queued frames through, the FIN follows them)
            deliver(d, None)
            pipes[d].lose = 1
            for k_ in range(2):
                conns[k_].connectionLost(failure.Failure(error.ConnectionDone()))
            before_reads = len(reads[e])
            for _ in range(3):
                issue_read(e)
        except Exception as ex:
            res.violate("roundtrip", "sending two records and closing raised %r" % ex, input_class="fin-raises",
                        exc=type(ex).__name__)
        else:
            late = [r["result"] for r in reads[e][before_reads:]]
            # reads that were already waiting take the tail records first
            if got[d][n0:] != tail[:len(got[d]) - n0] or len(got[d]) - n0 != len(tail):
                res.violate("roundtrip", "direction %d: the sender sent two records and closed; the receiver, reading "
                            "after the close, obtained %s of them (%s); late reads %r" % (
                                d, len(got[d]) - n0, common.short(got[d][n0:]), [x[0] if x else None for x in late]),
                            input_class="records-before-close-lost")
            elif any(x is None for x in late):
                # (a read issued after the loss with nothing left to return stays pending: measured, see ASSUMPTIONS)
                res.notes["read_issued_after_close_with_empty_queue_never_fires"] += 1
    reached = any(first_affected[d] is not None for d in range(2))
    nrec = max(len(sent[0]), len(sent[1]))
    res.nontrivial = (nrec >= 2 and split[0] >= 1) or reached
    res.features = dict(ops="+".join(applied) or "-", m0=c["mode"][0], m1=c["mode"][1], nrec=common.bucket(nrec, [0, 1, 2, 6, 17]),
                        split=common.bucket(split[0], [0, 1, 5]), dropped=bool(any_drop), late_go=bool(held_go),
                        idles=idles[0], fin=str(c.get("fin")))
    res.trace = "%r|%r|%d" % (c["recs"], applied, split[0])
    res.steps = step
    res.sample = dict(recs=c["recs"], modes=c["mode"], ops_applied=applied, first_affected=first_affected,
                      surfaced=[len(got[0]), len(got[1])], dropped=[p.lose for p in pipes])
    return res


def _setup_modes(c, conns, pending, total, sinks, cons_d, issue_read, FC, only=(0, 1)):
    for e in only:
        mode = c["mode"][e]
        d_in = 1 - e
        if mode == "read-early":
            for _ in range(len(c["recs"][d_in]) + 1):
                issue_read(e)
        elif mode == "consumer":
            sinks[e] = FC(e)
            conns[e].connectConsumer(sinks[e], expected=None)
        elif mode.startswith("tofile"):
            k = total[d_in] + {"exact": 0, "below": -max(1, total[d_in] // 3), "above": 5}[mode.split("-")[1]]
            k = max(0, k)
            sinks[e] = Sink()
            dd = conns[e].writeToFile(sinks[e], k)
            cons_d[e] = dict(result=None, expected=k)
            if dd is not None:
                dd.addCallbacks(lambda r, e=e: cons_d[e].__setitem__("result", ("ok", r)),
                                lambda f, e=e: cons_d[e].__setitem__("result", ("err", f.value)))
        elif mode == "chain":
            sizes = list(c["recs"][d_in])
            n1 = sum(sizes[:max(1, len(sizes) // 2)])
            n2 = sum(sizes) - n1
            cs = ChainSink()
            sinks[e] = cs
            cons_d[e] = dict(result=None, expected=n1 + n2, chain=(n1, n2))

            def second(r, e=e, cs=cs, n2=n2):
                cs.results[0] = ("ok", r)
                d2 = conns[e].writeToFile(cs.second, n2)       # issued synchronously from the first one's callback
                d2.addCallbacks(lambda r2: (cs.results.__setitem__(1, ("ok", r2)), cons_d[e].__setitem__("result", ("ok", r2))),
                                lambda f2: (cs.results.__setitem__(1, ("err", f2.value)), cons_d[e].__setitem__("result", ("err", f2.value))))
                return r
            d1 = conns[e].writeToFile(cs.first, n1)
            d1.addCallbacks(second, lambda f, e=e, cs=cs: (cs.results.__setitem__(0, ("err", f.value)),
                                                            cons_d[e].__setitem__("result", ("err", f.value))))


def check_prefix(res, c, sent, got, sinks, first_affected, errs):
    if errs:
        return
    for d in range(2):
        e = 1 - d
        mode = c["mode"][e]
        limit = len(sent[d]) if first_affected[d] is None else min(len(sent[d]), first_affected[d])
        if mode.startswith("read"):
            g = got[d]
            if g != sent[d][:len(g)] or len(g) > limit:
                errs.append(1)
                res.violate("prefix", "direction %d: surfaced %s, sent %s, first manipulated record %r" % (
                    d, common.short(g), common.short(sent[d]), first_affected[d]),
                    input_class="surfaced-not-prefix" if g != sent[d][:len(g)] else "surfaced-at-or-after-manipulation")
        else:
            if sinks[e] is None:
                continue        # this end's negotiation has not finished yet: nothing can have been surfaced
            have = b"".join(sinks[e].data) if mode == "consumer" else bytes(sinks[e].data)
            want = b"".join(sent[d][:limit])
            if mode.startswith("tofile"):
                pass
            if have != want[:len(have)]:
                errs.append(1)
                res.violate("prefix", "direction %d: consumer has %d bytes that are not a prefix of the %d bytes "
                            "sent before the first manipulated record (%r)" % (d, len(have), len(want), first_affected[d]),
                            input_class="consumer-not-prefix")
