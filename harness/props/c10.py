# C10 - Dilation delivers every record exactly once, in order, across reconnects.
import json
from hypothesis import strategies as st
from runner import CaseResult
from props import common
import dilworld
CASE_WALL_S = 60

ID = "C10"
TIERS = {"quick": dict(examples=1200), "thorough": dict(examples=30000)}
RULE = ("Two real dilated wormholes (real Manager/Connector/L2 protocol/subchannels, Noise) on the simulated "
        "network. Generated: 1-4 subchannels opened from either side on 2 subprotocol names, 0-10 writes per end "
        "(sizes 0, 1, 10, 300, around 65519, 70000), closes from either end, listeners registered before or "
        "after the peer's OPEN; all operations issued at tape-chosen moments, also while no L2 connection exists; "
        "0-5 kills of the selected link at tape-chosen points (mid-frame included), noticed independently by the "
        "two sides; small or large transport buffers. Oracle: for every subchannel and direction the receiving "
        "application's events (connectionMade, dataReceived(x)..., connectionLost) are after EVERY step a prefix "
        "of the sender's operations (connect, write(x)..., loseConnection) with one dataReceived per write and "
        "identical bytes, and equal to them at quiescence after stabilisation; subchannels appear in the order "
        "opened. Non-trivial = >=1 kill while a side had unacknowledged records or bytes in flight, or >=1 write "
        "issued while disconnected. Distinct = (features, event-kind trace).")
ASSUMPTIONS = ["simulated TCP per DESIGN 2.1; mailbox faults off", "Noise implementation trusted",
               "'eventually' = quiescent within the stabilisation budget after the last kill"]

SIZES = [0, 1, 10, 10, 300, 300, 65510, 65519, 65520, 70000]


@st.composite
def cases(draw, tier="quick"):
    P = {}
    nsub = draw(st.integers(1, 4))
    ops = []
    subs = []
    counts = [0, 0]
    for k in range(nsub):
        side = draw(st.integers(0, 1))
        name = draw(st.sampled_from(["p", "q"]))
        subs.append((side, counts[side], name))
        counts[side] += 1
        ops.append(["open", side, name])
    # listeners: early (before everything) or late (somewhere in the list)
    for side in range(2):
        for name in ("p", "q"):
            pos = 0 if draw(st.booleans()) else draw(st.integers(0, len(ops)))
            ops.insert(pos, ["listen", side, name])
    for (side, idx, name) in subs:
        for end in ("o", "a"):
            for _ in range(draw(st.integers(0, 5 if end == "a" else 10))):
                ops.append(["write", [side, idx], end, draw(st.sampled_from(SIZES))])
        if draw(st.integers(0, 2)) == 0:
            who = draw(st.sampled_from(["o", "a", "both"]))
            for end in (("o", "a") if who == "both" else (who,)):
                ops.append(["sclose", [side, idx], end])
    P["eager"] = draw(st.sampled_from([None, None, None, "write"]))
    # shuffle writes of different subchannels against each other, keeping per-end order (the driver
    # only ever offers the first enabled intent per subchannel end)
    perm = draw(st.permutations(range(len(ops))))
    P["ops"] = [ops[j] for j in sorted(range(len(ops)), key=lambda j: (0 if ops[j][0] == "listen" and j < 4 else 1, perm[j]))]
    P["kills"] = draw(st.sampled_from([0, 1, 1, 2, 3, 5]))
    P["w_kill"] = draw(st.sampled_from([1, 2, 4]))
    if draw(st.integers(0, 3)) == 0:
        # the last connect() of a side waits for a loss + replacement of the connection (earlier subchannels still open)
        P["hold_last_open"] = draw(st.sampled_from([[1, 0], [0, 1], [1, 1]]))
        P["kills"] = max(1, P["kills"])
    P["bufsize"] = draw(st.sampled_from([1 << 16, 1 << 16, 200, 5000]))
    P["max_reconnects"] = 6
    P["dilate_at"] = [draw(st.sampled_from(["start", "tape"])), draw(st.sampled_from(["start", "tape"]))]
    n = draw(st.integers(30, 400))
    P["tape"] = draw(st.binary(min_size=n, max_size=n))
    return P


def strategy(tier):
    return cases(tier)


def prefix_violations(case, final=False):
    """returns (clause, detail, input_class) or None"""
    for o in case.opens:
        side, name, oe = o[0], o[1], o[2]
    per = {}
    for o in case.opens:
        per.setdefault((o[0], o[1]), []).append(o)
    for (side, name), lst in per.items():
        accs = case.accepted[(1 - side, name)]
        if len(accs) > len(lst):
            return ("once", "%d subchannels named %r accepted, peer opened %d" % (len(accs), name, len(lst)),
                    "more-accepts-than-opens")
        for k, o in enumerate(lst):
            oe = o[2]
            ae = accs[k] if k < len(accs) else None
            if ae is not None and ae.addr_name != name:
                return ("once", "accepted under %r, opened as %r" % (ae.addr_name, name), "wrong-subprotocol")
            if oe is None:
                if ae is not None:
                    return ("order", "acceptor exists before the opener's connect() fired", "accept-before-open")
                continue
            for snd, rcv, d in ((oe, ae, "o>a"), (ae, oe, "a>o")):
                if snd is None or rcv is None:
                    continue
                got = rcv.got()
                if got != snd.writes[:len(got)]:
                    return ("exact", "subchannel %s#%d %s: received %s, written %s" % (
                        name, k, d, common.short(got), common.short(snd.writes)), "data-not-prefix")
                kinds = rcv.kinds()
                if kinds and kinds[0] != "made":
                    return ("order", "event before connectionMade: %r" % kinds[:4], "event-before-made")
                if "lost" in kinds and kinds[-1] != "lost":
                    return ("order", "event after connectionLost: %r" % kinds[-4:], "event-after-lost")
                if kinds.count("lost") > 1 or kinds.count("made") > 1:
                    return ("once", "made/lost delivered twice: %r" % kinds, "made-or-lost-twice")
                if "lost" in kinds and snd.closed_locally is None and rcv.closed_locally is None and \
                        case.closed_called[0] is None and case.closed_called[1] is None:
                    return ("once", "connectionLost on %s although nobody closed" % d, "spurious-lost")
                if final:
                    if got != snd.writes and not (rcv.closed_locally is not None or "lost" in kinds):
                        return ("complete", "subchannel %s#%d %s: %d of %d writes delivered at quiescence (%s vs %s)" % (
                            name, k, d, len(got), len(snd.writes), common.short(got), common.short(snd.writes)),
                            "writes-missing-at-quiescence")
                    if snd.closed_locally is not None and "lost" not in kinds:
                        return ("complete", "subchannel %s#%d: %s closed but the peer never saw connectionLost" % (
                            name, k, d[0]), "close-not-delivered")
                    if "lost" in kinds and got != snd.writes:
                        return ("complete", "subchannel %s#%d %s: data written before close was not all delivered "
                                "before connectionLost (%d of %d)" % (name, k, d, len(got), len(snd.writes)),
                                "data-lost-before-close")
            if final and ae is None and (1 - side, name) in case.listening:
                return ("complete", "subchannel %s#%d opened by side %d never appeared on the peer" % (name, k, side),
                        "open-never-delivered")
    return None


def run_case(P):
    res = CaseResult()
    case = dilworld.DilCase(P)
    case.setup()
    bad = []

    def after(c):
        if not bad:
            v = prefix_violations(c)
            if v:
                bad.append(v + (c.step,))
    try:
        case.run(after_step=after)
        case.flush_intents()
        # make sure every name is listened for on both sides so that pending OPENs surface
        for side in range(2):
            for name in ("p", "q"):
                if (side, name) not in case.listening and case.dilated[side]:
                    case._do_intent(["listen", side, name])
        case.settles.append(case.settle(after_step=after))
        st_all = list(case.settles)
        if not bad and any(s == "reconnect-loop" for s in st_all):
            res.violate("complete", "with no fault injected the connection in use was replaced more than 6 times during "
                        "stabilisation (the code keeps dropping it): %r; logged %r" % (st_all[-3:], case.W.error_summaries()[:2]),
                        input_class="reconnect-loop-without-faults")
        elif not bad:
            if all(s == "quiescent" or s == "time" for s in st_all) and all(case.dilated):
                ms = case.managers()
                if not all(m is not None and m._connection for m in ms):
                    res.violate("complete", "no L2 connection at quiescence after %d kills (settle %r)" % (
                        case.kills, st_all[-2:]), input_class="not-reconnected-at-quiescence")
                else:
                    v = prefix_violations(case, final=True)
                    if v:
                        bad.append(v + (case.step,))
            else:
                res.inconclusive = True
        for o in case.opens:
            if o[2] is None and o[3] is not None and not res.inconclusive:
                res.violate("complete", "connect() for %r failed: %r" % (o[1], o[3].value), input_class="connect-failed",
                            exc=type(o[3].value).__name__)
        case.close_all()
    finally:
        case.finish()
    if bad:
        cl, detail, ic, step = bad[0]
        res.violate(cl, "%s (step %d, kills %d)" % (detail, step, case.kills), input_class=ic)
    for it, ex in case.api_exc:
        res.violate("api", "%r raised %r" % (it, ex), input_class="api-raises:%s" % type(ex).__name__, exc=type(ex).__name__)
        break
    for kind, ex, f in case.escaped:
        res.violate("escape", "exception escaped event %s: %r" % (kind, ex), input_class="escaped:%s" % type(ex).__name__,
                    exc=type(ex).__name__)
        break
    hot_kill = any((k["unacked"][0] or k["unacked"][1] or k["inflight"][0] or k["inflight"][1]) for k in case.kill_info)
    res.nontrivial = hot_kill or case.writes_while_down >= 1
    res.features = dict(kills=common.bucket(case.kills, [0, 1, 2, 4]), hot=hot_kill, down=common.bucket(case.writes_while_down, [0, 1, 3]),
                        subs=len(case.opens), buf=P["bufsize"], late="/".join(P["dilate_at"]))
    for (exc, frame, msg) in case.errors:
        res.notes["errlog:%s@%s" % (exc, frame)] += 1
    res.notes["kills"] += case.kills
    res.notes["writes_while_down"] += case.writes_while_down
    res.trace = dilworld.trace_of(case)
    res.steps = case.W.steps
    res.sample = dict(ops=P["ops"][:30], kills=case.kills, kill_info=case.kill_info[:4],
                      subchannels=[[o[0], o[1], len(o[2].writes) if o[2] else None] for o in case.opens])
    return res
