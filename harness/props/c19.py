# C19 - codes are well-formed with the promised entropy; code entry is consistent.
import os, json, itertools, unicodedata
from unittest import mock
from hypothesis import strategies as st
from runner import CaseResult
from props import common
CASE_WALL_S = 20

ID = "C19"
TIERS = {"quick": dict(examples=5000, parts=dict(alloc=600, validate=2500, complete=1500, onlyone=300)),
         "thorough": dict(examples=200000, parts=dict(alloc=20000, validate=100000, complete=70000, onlyone=5000))}
PARTS = ["alloc", "validate", "complete", "onlyone"]
RULE = ("(alloc) allocate_code(n), n in 1..8, through real clients against the real server: code == server "
        "nameplate + '-' + n words, word i from the odd list when i is even else the even list (lists re-derived "
        "by the harness from raw_words). (exhaustive, in both tiers) with os.urandom replaced by an enumerating "
        "source: at every position 0..7 the 256 byte values map onto all 256 words of that position's list exactly "
        "once, and all 65536 byte pairs give 65536 distinct 2-word codes; if the implementation stops consuming "
        "one byte per word this falls back to a chi-square test (p<1e-9) on real entropy. (validate) codes and "
        "nameplates from a grammar with spaces anywhere, empty and non-digit nameplates (letters, signs, tab, "
        "trailing newline) => KeyFormatError from set_code / choose_nameplate AND nothing is sent to the server "
        "because of the call; 1-6 ASCII digit nameplates accepted. (complete) typed prefixes of valid words + a "
        "partial last word (+ junk prefixes for the 'extends' clause) and generated server nameplate lists (a "
        "history of 1-4 lists, each fetched by refresh_nameplates(); nameplates come and go, lists may be empty), "
        "through the real Input helper on a real wormhole and through CodeInputter: every completion starts with "
        "what was typed, names a listed nameplate, and accepting completions until no hyphen trails yields a code "
        "allocate_code could have produced. (onlyone) all ordered pairs of allocate/set/input => the second "
        "raises OnlyOneCodeError. Non-trivial = malformed code, or a prefix with >=1 completed word and a "
        "non-empty partial word, or n>=3. Distinct = (features, canonical case).")
RULE += (' Added later (complete part): 0-2 earlier TABs in the same input session with a different (mistyped, then corrected) earlier word and the same partial last word.')
ASSUMPTIONS = ["uniformity is decided for the byte->word map and the entropy-consumption pattern; os.urandom is trusted",
               "nameplates made of non-ASCII Unicode digits are generated and tallied but not asserted either way"]


def lists():
    from wormhole import _wordlist
    even = [v[0].lower() for k, v in sorted(_wordlist.raw_words.items())]
    odd = [v[1].lower() for k, v in sorted(_wordlist.raw_words.items())]
    return even, odd


def producible(words):
    """could allocate_code(len(words)) have produced these words?"""
    even, odd = lists()
    es, os_ = set(even), set(odd)
    return all((w in os_) if i % 2 == 0 else (w in es) for i, w in enumerate(words))


# ------------------------------------------------------------------ strategies
@st.composite
def alloc_cases(draw):
    n = draw(st.integers(0, 30))
    return dict(part="alloc", n=draw(st.integers(1, 8)), mode=draw(st.sampled_from(["delegate", "deferred"])),
                pre=draw(st.integers(0, 3)), tape=draw(st.binary(min_size=n, max_size=n)),
                # allocate_code() issued before the server connection exists, or once it is up (after the welcome)
                when=draw(st.sampled_from(["first", "connected"])))


BAD_NP = ["", " ", "1 ", " 1", "1 2", "a", "1a", "a1", "4x", "4.5", "-", "+1", "-1", "1\t", "\t1", "1\n", "\n1", "1\r",
          "0x10", "1e3", "٣", "१२", "１２", "1_0", "½", "1,2", "one", "12abc"]
GOOD_NP = ["1", "7", "12", "007", "99999", "123456", "0"]


@st.composite
def validate_cases(draw):
    kind = draw(st.sampled_from(["badnp", "badnp", "space", "good", "gen"]))
    words = draw(st.sampled_from(["purple-sausages", "", "a", "é-ß", "x-y-z", "-", "--"]))
    if kind == "badnp":
        np_ = draw(st.sampled_from(BAD_NP))
    elif kind == "good":
        np_ = draw(st.sampled_from(GOOD_NP))
    elif kind == "space":
        np_ = draw(st.sampled_from(GOOD_NP))
        j = draw(st.integers(0, len(words)))
        words = words[:j] + " " + words[j:]
    else:
        np_ = draw(st.text(alphabet=st.sampled_from(list("0123456789")) | st.characters(blacklist_categories=("Cs",)),
                           max_size=5))
    how = draw(st.sampled_from(["set_code", "set_code", "choose_nameplate", "xfer_receive", "xfer_send"]))
    if how.startswith("xfer") and draw(st.integers(0, 3)) == 0:
        np_, words = "", ""            # the convenience API handed an empty string as the code
    return dict(part="validate", np=np_, words=words, how=how, mode=draw(st.sampled_from(["delegate", "deferred"])))


@st.composite
def complete_cases(draw):
    even, odd = lists()
    nps = draw(st.lists(st.integers(1, 999).map(str), min_size=0, max_size=5, unique=True))
    nwords = draw(st.integers(0, 3))
    junk = draw(st.integers(0, 6)) == 0
    done = []
    for i in range(nwords):
        done.append(draw(st.sampled_from(odd if i % 2 == 0 else even)))
    if junk and done:
        done[draw(st.integers(0, len(done) - 1))] = draw(st.sampled_from(["zzz", "Purple", "é", "a b".replace(" ", "")]))
    full = draw(st.sampled_from(odd if nwords % 2 == 0 else even))
    cut = draw(st.integers(0, len(full)))
    partial = full[:cut]
    if draw(st.integers(0, 9)) == 0:
        partial = draw(st.sampled_from(["zq", "Q", "é", "-"]))
    np_prefix_of = draw(st.integers(0, max(0, len(nps) - 1)))
    np_cut = draw(st.integers(0, 3))
    pick = draw(st.lists(st.integers(0, 300), min_size=4, max_size=4))
    # the server's nameplate list as it was at 0-3 earlier refreshes (nameplates come and go, the list may
    # become empty); `nps` is the list at the last refresh
    earlier = draw(st.lists(st.lists(st.integers(1, 999).map(str), min_size=0, max_size=4, unique=True), max_size=3))
    # the user asked for completions before with a different (mistyped, then corrected) earlier word but the same
    # partial last word: 0-2 such earlier TABs on the same input session
    pre_edit = []
    if done:
        for _ in range(draw(st.integers(0, 2))):
            alt = list(done)
            k = draw(st.integers(0, len(alt) - 1))
            alt[k] = draw(st.one_of(st.sampled_from(odd if k % 2 == 0 else even), st.just(alt[k][:-1] or "x")))
            pre_edit.append(alt)
    return dict(part="complete", pre_edit=pre_edit, nps=nps, done=done, partial=partial, junk=junk, np_idx=np_prefix_of, np_cut=np_cut,
                pick=pick, via=draw(st.sampled_from(["helper", "helper", "inputter"])), earlier=earlier,
                # (readline front end) after the nameplate is committed the user edits it: extends it or replaces it
                np_change=draw(st.sampled_from([None, None, "extend", "other"])))


@st.composite
def onlyone_cases(draw):
    return dict(part="onlyone", first=draw(st.sampled_from(["allocate", "set", "input"])),
                second=draw(st.sampled_from(["allocate", "set", "input"])),
                mode=draw(st.sampled_from(["delegate", "deferred"])), settle=draw(st.booleans()),
                # calls that are refused in between (a malformed code, a repeated call) must not re-arm the guard
                between=draw(st.lists(st.sampled_from(["badset", "badset2", "allocate", "set", "input"]), max_size=2)))


def strategy(tier, part="alloc"):
    return {"alloc": alloc_cases, "validate": validate_cases, "complete": complete_cases,
            "onlyone": onlyone_cases}[part]()


# ------------------------------------------------------------------ drivers
class _Dg:
    def __init__(self):
        self.ev = []

    def wormhole_got_welcome(self, w): pass
    def wormhole_got_code(self, c): self.ev.append(("code", c))
    def wormhole_got_unverified_key(self, k): pass
    def wormhole_got_verifier(self, v): pass
    def wormhole_got_versions(self, v): pass
    def wormhole_got_message(self, m): pass
    def wormhole_closed(self, r): self.ev.append(("closed", r))


def _mk(W, mode):
    dg = _Dg()
    if mode == "delegate":
        w = W.create(delegate=dg)
    else:
        w = W.create()
        w.get_code().addCallbacks(lambda c: dg.ev.append(("code", c)), lambda f: None)
    return w, dg


def run_alloc(c, res):
    from simworld import World, Tape
    import mbworld
    even, odd = lists()
    W = World(b"c19a" + bytes(c["tape"]) + bytes([c["n"], c["pre"]]))
    try:
        # some nameplates already taken, so the server hands out different ones
        for k in range(c["pre"]):
            rc = mbworld.RawClient(W, "appid", side="pre%d" % k)
            rc.cmd("allocate")
        w, dg = _mk(W, c["mode"])
        if c.get("when") == "connected":
            W.settle(max_steps=300)
        w.allocate_code(c["n"])
        W.settle(tape=Tape(c["tape"]), max_steps=300)
        W.settle(max_steps=300)
        codes = [e[1] for e in dg.ev if e[0] == "code"]
        allocated = [m["nameplate"] for (n_, k_, m) in W.srvlog if m.get("type") == "allocated" and n_ == w._sim_svc.name]
        if len(codes) != 1 or not allocated:
            res.violate("structure", "allocate_code(%d): code events %r, server allocated %r" % (c["n"], codes, allocated),
                        input_class="no-code-after-allocate")
        else:
            code = codes[0]
            np_, _, rest = code.partition("-")
            words = rest.split("-") if rest else []
            ok = np_ == allocated[-1] and len(words) == c["n"] and producible(words)
            if not ok:
                res.violate("structure", "allocate_code(%d) with server nameplate %r gave %r" % (c["n"], allocated[-1], code),
                            input_class="malformed-allocated-code:n=%d" % c["n"])
        w.close()
        W.settle(max_steps=300)
    finally:
        W.close()
    res.nontrivial = c["n"] >= 3 or c["pre"] > 0
    res.features = dict(part="alloc", n=c["n"], pre=c["pre"], mode=c["mode"], when=c.get("when"))


def ref_valid_nameplate(np_):
    return 1 <= len(np_) and all(ch in "0123456789" for ch in np_)


def run_validate(c, res):
    from simworld import World
    from wormhole.errors import KeyFormatError
    np_, words = c["np"], c["words"]
    code = np_ + "-" + words
    if c["how"].startswith("xfer"):
        return run_validate_xfer(c, res, "" if (np_ == "" and words == "") else code)
    if c["how"] == "set_code":
        # in a code the nameplate is what precedes the FIRST hyphen: a generated "nameplate" that contains one
        # ("0-") just yields the nameplate "0" and a password starting with a hyphen - a well-formed code
        np_ = code.split("-", 1)[0]
    ascii_ok = ref_valid_nameplate(np_)
    unicode_digits = (not ascii_ok) and len(np_) > 0 and all(unicodedata.category(ch) == "Nd" for ch in np_)
    W = World(b"c19v" + code.encode("utf-8", "surrogatepass"))
    try:
        w, dg = _mk(W, c["mode"])
        W.settle(max_steps=200)
        before = len(W.cmdlog)
        raised = None
        if c["how"] == "set_code":
            must_reject = (" " in code) or not ascii_ok
            must_accept = ascii_ok and " " not in code and len(np_) <= 6
        else:
            must_reject = not ascii_ok
            must_accept = ascii_ok and len(np_) <= 6
        try:
            if c["how"] == "set_code":
                w.set_code(code)
            else:
                h = w.input_code()
                W.settle(max_steps=200)
                before = len(W.cmdlog)
                h.choose_nameplate(np_)
        except KeyFormatError as ex:
            raised = ex
        except Exception as ex:
            res.violate("validate", "%s(%r) raised %r" % (c["how"], code if c["how"] == "set_code" else np_, ex),
                        input_class="validation-raises-%s" % type(ex).__name__, exc=type(ex).__name__)
            return
        W.settle(max_steps=300)
        sent = [m for (n_, k_, m) in W.cmdlog[before:]]
        what = code if c["how"] == "set_code" else np_
        if unicode_digits:
            res.notes["unicode_digit_nameplate_%s" % ("rejected" if raised else "accepted")] += 1
        elif must_reject and raised is None:
            res.violate("validate", "%s(%r) was accepted; commands sent afterwards: %r" % (
                c["how"], what, [m.get("type") for m in sent]),
                input_class="malformed-accepted:%s" % _np_class(np_, code))
        elif must_accept and raised is not None:
            res.violate("validate", "%s(%r) rejected: %r" % (c["how"], what, raised), input_class="valid-code-rejected")
        if raised is not None and sent:
            res.violate("validate", "%s(%r) raised KeyFormatError but still sent %r" % (
                c["how"], what, [m.get("type") for m in sent]), input_class="sent-despite-KeyFormatError")
        try:
            w.close()
        except Exception:
            pass
        W.settle(max_steps=300)
    finally:
        W.close()
    res.nontrivial = not ascii_ok or " " in code
    res.features = dict(part="validate", how=c["how"], cls=_np_class(np_, code), mode=c["mode"])


def run_validate_xfer(c, res, code):
    """the same rejection rule through the convenience API wormhole.xfer_util.send()/receive(): an explicit code that is
    malformed (including the empty string) fails with KeyFormatError and nothing is sent because of the call"""
    from simworld import World
    from wormhole import xfer_util
    from wormhole.errors import KeyFormatError
    np_ = code.split("-", 1)[0]
    ascii_ok = ref_valid_nameplate(np_)
    must_reject = (" " in code) or not ascii_ok
    unicode_digits = (not ascii_ok) and len(np_) > 0 and all(unicodedata.category(ch) == "Nd" for ch in np_)
    W = World(b"c19x" + code.encode("utf-8", "surrogatepass"))
    try:
        node = W.node("x")
        out = []
        before = len(W.cmdlog)
        try:
            if c["how"] == "xfer_receive":
                d = xfer_util.receive(node, "appid", "ws://sim:4000/v1", code)
            else:
                d = xfer_util.send(node, "appid", "ws://sim:4000/v1", "data", code)
            d.addBoth(out.append)
        except Exception as ex:
            out.append(failure_of(ex))
        W.settle(max_steps=300)
        sent = [m.get("type") for (n_, k_, m) in W.cmdlog[before:] if m.get("type") not in ("bind",)]
        failed = bool(out) and hasattr(out[0], "value")
        if must_reject and not unicode_digits:
            if not failed or not isinstance(out[0].value, KeyFormatError):
                res.violate("validate", "xfer_util.%s(code=%r): %s; commands sent: %r" % (
                    c["how"][5:], code, "failed with %r" % out[0].value if failed else "did not fail", sent),
                    input_class="malformed-accepted:xfer:%s" % ("empty" if code == "" else _np_class(np_, code)))
            elif any(t in ("claim", "allocate", "open", "add") for t in sent):
                res.violate("validate", "xfer_util.%s(code=%r) raised KeyFormatError but still sent %r" % (c["how"][5:], code, sent),
                            input_class="sent-despite-KeyFormatError")
        W.settle(max_steps=200)
    finally:
        W.close()
    res.nontrivial = must_reject
    res.features = dict(part="validate", how=c["how"], cls=("empty" if code == "" else _np_class(np_, code)), mode="deferred")


def failure_of(ex):
    from twisted.python import failure
    return failure.Failure(ex)


def _np_class(np_, code):
    if ref_valid_nameplate(np_):
        return "space-in-code" if " " in code else "valid"
    if np_ == "":
        return "empty"
    if np_.endswith("\n") and ref_valid_nameplate(np_[:-1]):
        return "trailing-newline"
    if any(ch.isspace() for ch in np_):
        return "whitespace"
    if all(unicodedata.category(ch) == "Nd" for ch in np_):
        return "unicode-digits"
    return "non-digit"


def run_complete(c, res):
    from simworld import World
    import mbworld
    from wormhole import _rlcompleter
    from wormhole.errors import WormholeError
    even, odd = lists()
    nps = c["nps"]
    W = World(b"c19c" + json.dumps([nps, c["done"], c["partial"]]).encode())
    try:
        holders = {}

        def set_server_list(lst):
            for np_ in list(holders):
                if np_ not in lst:
                    holders.pop(np_).cmd("release", nameplate=np_)
            for np_ in lst:
                if np_ not in holders:
                    holders[np_] = mbworld.RawClient(W, "appid", side="peer%d" % len(W.cmdlog))
                    holders[np_].cmd("claim", nameplate=np_)
        earlier = c.get("earlier") or []
        set_server_list(earlier[0] if earlier else nps)
        w, dg = _mk(W, "delegate")
        h = w.input_code()
        W.settle(max_steps=300)
        typed_words = "-".join(c["done"] + [c["partial"]])
        target_np = nps[c["np_idx"]] if nps else "5"
        np_prefix = target_np[:c["np_cut"]]
        if c["via"] == "helper":
            for lst in earlier:
                set_server_list(lst)
                h.refresh_nameplates()
                W.settle(max_steps=300)
                got_ = set(h.get_nameplate_completions(""))
                if got_ != {n_ + "-" for n_ in lst}:
                    res.violate("complete", "after a refresh answered with the nameplates %r the helper offers %r "
                                "(earlier lists %r)" % (sorted(lst), sorted(got_), earlier),
                                input_class="nameplate-completions-differ")
            set_server_list(nps)
            h.refresh_nameplates()
            W.settle(max_steps=300)
            comps = h.get_nameplate_completions(np_prefix)
            for cp in comps:
                if not cp.startswith(np_prefix) or not cp.endswith("-") or cp[:-1] not in nps:
                    res.violate("complete", "nameplate completion %r for typed %r with server list %r" % (
                        cp, np_prefix, nps), input_class="bad-nameplate-completion")
            want = {n_ + "-" for n_ in nps if n_.startswith(np_prefix)}
            if set(comps) != want:
                res.violate("complete", "nameplate completions %r, listed nameplates matching %r are %r" % (
                    sorted(comps), np_prefix, sorted(want)), input_class="nameplate-completions-differ")
            h.choose_nameplate(target_np)
            W.settle(max_steps=300)
            get = lambda text: h.get_word_completions(text)          # noqa: E731
            prefix_for = lambda text: text                            # noqa: E731
        else:
            ci = _rlcompleter.CodeInputter(h, W.clock)
            ci.bcft = lambda f, *a, **kw: f(*a, **kw)

            typed_np = [target_np]
            committed = [False]
            refused = [0]

            def get(text):
                # first call commits to the nameplate; the wordlist arrives with `claimed`
                if not committed[0]:
                    ci._commit_and_build_completions(target_np + "-" + text)
                    W.settle(max_steps=300)
                    committed[0] = True
                    if c.get("np_change") == "extend":
                        typed_np[0] = target_np + "2"
                    elif c.get("np_change") == "other":
                        typed_np[0] = "9" + target_np
                np_ = typed_np[0]
                try:
                    r = ci._commit_and_build_completions(np_ + "-" + text)
                except WormholeError as ex:
                    # "cannot go back": the committed nameplate was edited
                    refused[0] += 1
                    res.notes["completer_refused:" + type(ex).__name__] += 1
                    return []
                return [x[len(np_) + 1:] for x in r if x.startswith(np_ + "-")] + \
                       [x for x in r if not x.startswith(np_ + "-")]
            prefix_for = lambda text: text                            # noqa: E731
        for alt in c.get("pre_edit") or []:
            alt_text = "-".join(alt + [c["partial"]])
            for cp in sorted(get(alt_text)):
                if not cp.startswith(alt_text):
                    res.violate("complete", "word completion %r does not extend typed %r" % (cp, alt_text),
                                input_class="completion-does-not-extend")
            res.notes["earlier_tab_with_other_words"] += 1
        text = typed_words
        rounds = 0
        final = None
        while rounds < 4:
            comps = sorted(get(text))
            for cp in comps:
                if not cp.startswith(text):
                    res.violate("complete", "word completion %r does not extend typed %r" % (cp, text),
                                input_class="completion-does-not-extend")
            if not comps:
                break
            cp = comps[c["pick"][rounds] % len(comps)]
            rounds += 1
            if cp.endswith("-"):
                text = cp
                continue
            final = cp
            break
        if final is not None:
            words = final.split("-")
            if not c["junk"] and c["partial"] not in ("zq", "Q", "é", "-"):
                if not producible(words):
                    res.violate("complete", "accepting completions from %r led to %r, which allocate_code cannot "
                                "produce" % (typed_words, final), input_class="completed-code-not-producible")
            before = [e for e in dg.ev if e[0] == "code"]
            try:
                if c["via"] == "helper":
                    h.choose_words(final)
                else:
                    entered_np = typed_np[0]
                    ci.finish(entered_np + "-" + final)
            except WormholeError as ex:
                res.notes["finish_rejected:" + type(ex).__name__] += 1
            W.settle(max_steps=300)
            codes = [e[1] for e in dg.ev if e[0] == "code"]
            entered = (typed_np[0] if c["via"] != "helper" else target_np) + "-" + final
            if codes and codes[0] != entered:
                res.violate("complete", "entered %r but the wormhole reports code %r" % (entered, codes[0]),
                            input_class="code-differs-from-entered")
        res.notes["completion_rounds"] += rounds
        try:
            w.close()
        except Exception:
            pass
        W.settle(max_steps=300)
    finally:
        W.close()
    res.nontrivial = len(c["done"]) >= 1 and len(c["partial"]) >= 1
    res.notes["nameplate_list_shrank_to_empty"] += int(any(not l for l in (c.get("earlier") or [])[1:] + [c["nps"]])
                                                       and any((c.get("earlier") or [])))
    res.features = dict(part="complete", via=c["via"], refreshes=len(c.get("earlier") or []), done=len(c["done"]), partial=min(len(c["partial"]), 3),
                        junk=c["junk"], nps=min(len(nps), 3), final=final is not None)


def run_onlyone(c, res):
    from simworld import World
    from wormhole.errors import OnlyOneCodeError
    W = World(b"c19o" + (c["first"] + c["second"] + "".join(c.get("between") or [])).encode())
    try:
        w, dg = _mk(W, c["mode"])

        def call(kind):
            if kind == "allocate":
                w.allocate_code(2)
            elif kind == "set":
                w.set_code("3-purple-sausages")
            else:
                w.input_code()
        call(c["first"])
        if c["settle"]:
            W.settle(max_steps=300)
        from wormhole.errors import KeyFormatError
        for b in c.get("between") or []:
            try:
                if b == "badset":
                    w.set_code("bad code")
                elif b == "badset2":
                    w.set_code("x-purple-sausages")
                else:
                    call(b)
            except (OnlyOneCodeError, KeyFormatError) as ex:
                res.notes["between_%s_%s" % (b, type(ex).__name__)] += 1
            except Exception as ex:
                res.violate("onlyone", "%s then %s raised %r" % (c["first"], b, ex),
                            input_class="second-code-call-raises-%s" % type(ex).__name__, exc=type(ex).__name__)
        try:
            call(c["second"])
            res.violate("onlyone", "%s then %s: second call did not raise" % (c["first"], c["second"]),
                        input_class="second-code-call-accepted:%s-%s" % (c["first"], c["second"]))
        except OnlyOneCodeError:
            pass
        except Exception as ex:
            res.violate("onlyone", "%s then %s raised %r instead of OnlyOneCodeError" % (c["first"], c["second"], ex),
                        input_class="second-code-call-raises-%s" % type(ex).__name__, exc=type(ex).__name__)
        W.settle(max_steps=300)
        try:
            w.close()
        except Exception:
            pass
        W.settle(max_steps=300)
    finally:
        W.close()
    res.nontrivial = True
    res.features = dict(part="onlyone", first=c["first"], second=c["second"], mode=c["mode"], settle=c["settle"])


def run_case(c):
    res = CaseResult()
    {"alloc": run_alloc, "validate": run_validate, "complete": run_complete, "onlyone": run_onlyone}[c["part"]](c, res)
    res.trace = json.dumps(c, sort_keys=True, default=str)[:500]
    res.sample = c
    return res


# ------------------------------------------------------------------ exhaustive byte -> word map
class _Enum:
    """stands in for os.urandom: returns bytes from a fixed sequence, records request sizes"""
    def __init__(self, seq):
        self.seq = list(seq)
        self.sizes = []

    def __call__(self, n):
        self.sizes.append(n)
        out = bytes(self.seq[:n])
        del self.seq[:n]
        if len(out) < n:
            out += bytes(n - len(out))
        return out


def extra(tier, seed):
    from wormhole._wordlist import PGPWordList
    even, odd = lists()
    wl = PGPWordList()
    viol = []
    cov = dict(exhaustive=False)

    def V(clause, detail, ic):
        viol.append(dict(clause=clause, detail=detail, input_class=ic, exc=None, frame=None, params={}, part="exhaustive"))
    # consumption pattern
    src = _Enum(range(8))
    with mock.patch("os.urandom", src):
        wl.choose_words(8)
    one_byte_per_word = src.sizes == [1] * 8
    cov["entropy_pattern"] = "one os.urandom(1) per word" if one_byte_per_word else "other: %r" % (src.sizes,)
    n_eval = 0
    if one_byte_per_word:
        # bijection at every position
        for pos in range(8):
            seen = {}
            for b in range(256):
                seq = [0] * 8
                seq[pos] = b
                with mock.patch("os.urandom", _Enum(seq)):
                    words = wl.choose_words(8).split("-")
                n_eval += 1
                seen[b] = words[pos]
            want = set(odd if pos % 2 == 0 else even)
            if set(seen.values()) != want or len(set(seen.values())) != 256:
                V("entropy", "position %d: %d distinct words over 256 byte values; %d outside the %s list" % (
                    pos, len(set(seen.values())), len(set(seen.values()) - want), "odd" if pos % 2 == 0 else "even"),
                  "byte-to-word-map-not-a-bijection:pos%d" % pos)
        # independence for n=2: all pairs distinct
        codes = set()
        for a in range(256):
            for b in range(256):
                with mock.patch("os.urandom", _Enum([a, b])):
                    codes.add(wl.choose_words(2))
                n_eval += 1
        if len(codes) != 65536:
            V("entropy", "65536 byte pairs give only %d distinct 2-word codes" % len(codes), "two-word-codes-collide")
        cov["exhaustive"] = True
        cov["exhaustive_space"] = "8 positions x 256 byte values; 256 x 256 byte pairs for 2-word codes"
    else:
        # statistical fallback on real entropy
        import collections
        cnt = [collections.Counter(), collections.Counter()]
        N = 100000
        for _ in range(N):
            w0, w1 = wl.choose_words(2).split("-")
            cnt[0][w0] += 1
            cnt[1][w1] += 1
        n_eval = N
        for par, want in ((0, odd), (1, even)):
            if set(cnt[par]) - set(want) or len(cnt[par]) != 256:
                V("entropy", "parity %d: %d distinct words, %d foreign" % (par, len(cnt[par]), len(set(cnt[par]) - set(want))),
                  "words-missing-or-foreign")
            exp = N / 256.0
            chi2 = sum((cnt[par].get(w_, 0) - exp) ** 2 / exp for w_ in want)
            if chi2 > 415.0:     # 255 dof, p < 1e-9 (Wilson-Hilferty)
                V("entropy", "parity %d chi-square %.1f over 255 dof" % (par, chi2), "word-distribution-not-uniform")
    # lists themselves: 256 distinct words each, disjoint use checked via raw_words
    if len(set(even)) != 256 or len(set(odd)) != 256:
        V("entropy", "word lists have %d / %d distinct entries" % (len(set(even)), len(set(odd))), "wordlist-not-256")
    cov.update(evaluations=n_eval, distinct_nontrivial=n_eval if not viol else 0,
               samples=[dict(position=0, byte=0, word=odd[0]), dict(position=1, byte=255, word=even[255])])
    return dict(violations=viol, coverage=cov)


def run_part_case(part, params):
    """replay of a finding of the exhaustive part: the enumeration is re-run"""
    res = CaseResult()
    for v in extra("quick", 1)["violations"]:
        res.violate(v["clause"], v["detail"], input_class=v["input_class"])
    return res
