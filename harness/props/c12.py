# C12 - Dilation L2 framing/encryption/encoding is lossless and rejects unkeyed input.
import struct
from zope.interface import implementer
from hypothesis import strategies as st
from runner import CaseResult
from props import common
import simworld  # noqa: F401  (selects noiseprotocol or the /verif shim)
from simworld import Tape
CASE_WALL_S = 30

ID = "C12"
TIERS = {"quick": dict(examples=13500, parts=dict(main=12000, sessions=1500)),
         "thorough": dict(examples=340000, parts=dict(main=300000, sessions=40000))}
PARTS = ["main", "sessions"]
RULE = ("A real DilatedConnectionProtocol pair (built by Connector.build_protocol, real _Framer/_Record/Noise) "
        "joined by byte pipes whose chunking is drawn from the tape (1..5 bytes, around the 48-byte handshake, "
        "around 65535, everything). Records of all types with 32-bit boundary ids/seqnums, payload lengths "
        "{0,1,2^k and k*65519 / k*65535 (k=1..3) with neighbours, as payload and as encoded length, random<=200000}, non-ASCII subprotocol names, both "
        "directions, relay handshake on/off, selection immediately or one delivery later (inbound queue). Hostile "
        "variants against one victim end by a party without the dilation key: wrong/near-miss/other-role "
        "prologue, wrong relay reply, Noise handshake under another PSK, frames encrypted in another session, "
        "single-byte corruption at a chosen stream offset, truncation, zero-length and oversized garbage frames. "
        "Oracle: honest => records surfaced to the manager == records sent, in order, each direction; hostile => "
        "nothing at or after the first affected record is surfaced, earlier records are unaffected, and once a "
        "complete bad element was received the victim's transport was told to close. Non-trivial = payload "
        "spanning >=2 Noise packets, or a frame split over >=2 chunks, or a hostile element. Distinct = "
        "(features, record-type/size/chunk trace). Part 'sessions': one or two independently keyed sessions with up "
        "to four connection pairs alive in one process, at most one selected per session, the others left as "
        "candidates or lost after the Leader's KCM and first records were parked on the Follower end; oracle: a "
        "manager is handed exactly what the peer of its selected connection sent, nothing from any other connection.")
ASSUMPTIONS = ["the Noise implementation in use (noiseprotocol or the /verif shim, self-tested in setup) is a correct AEAD",
               "byte pipes deliver in order; loss/replacement of connections is C10's subject"]

KEY = b"\x11" * 32
C_PROLOGUES = (b"Magic-Wormhole Dilation Handshake v1 Leader\n\n", b"Magic-Wormhole Dilation Handshake v1 Follower\n\n")
SIZES = [0, 1, 2, 100, 65509, 65510, 65511, 65519, 65520, 65534, 65535, 65536, 131038, 131039]
# generic boundary values: 2^k and neighbours, also as frame sizes (payload + 9 header + 16 tag)
for _k in (8, 12, 14, 15, 16, 17):
    for _d in (-1, 0, 1):
        SIZES += [2 ** _k + _d, max(0, 2 ** _k + _d - 9), max(0, 2 ** _k + _d - 25)]
# multiples of the Noise packet limits (plaintext 65519, ciphertext 65535) and neighbours, as encoded record
# lengths (payload + 9 bytes of Data header)
for _k in (1, 2, 3):
    for _u in (65519, 65535):
        for _d in (-1, 0, 1):
            SIZES += [_k * _u + _d, _k * _u + _d - 9]
SIZES = sorted(set(x for x in SIZES if x >= 0))
U32 = st.sampled_from([0, 1, 2, 255, 256, 65535, 65536, 2 ** 31 - 1, 2 ** 31, 2 ** 32 - 2, 2 ** 32 - 1]) | st.integers(0, 2 ** 32 - 1)


@st.composite
def records(draw):
    kind = draw(st.sampled_from(["ping", "pong", "open", "data", "data", "data", "close", "ack"]))
    if kind == "ping":
        return ["ping", draw(st.binary(min_size=4, max_size=4))]
    if kind == "pong":
        return ["pong", draw(st.binary(min_size=4, max_size=4))]
    if kind == "open":
        sub = draw(st.one_of(st.text(max_size=12), st.sampled_from(["", "é", "fowl", "日本語", "a" * 300])))
        if draw(st.integers(0, 30)) == 0:
            sub = "x" * draw(st.sampled_from([65510, 65511, 65512, 65526, 65527]))
        return ["open", draw(U32), draw(U32), sub]
    if kind == "data":
        n = draw(st.one_of(st.sampled_from(SIZES), st.sampled_from(SIZES), st.integers(0, 300), st.integers(0, 200000)))
        fill = draw(st.integers(0, 255))
        return ["data", draw(U32), draw(U32), n, fill]
    if kind == "close":
        return ["close", draw(U32), draw(U32)]
    return ["ack", draw(U32)]


@st.composite
def cases(draw, tier="quick"):
    c = {}
    c["relay"] = draw(st.sampled_from([None, None, "leader", "follower"]))   # which end dials through a relay
    c["relay_coalesce"] = draw(st.booleans())      # the relay's reply is not a TCP segment of its own
    c["late_select"] = draw(st.booleans())
    c["recs"] = [draw(st.lists(records(), max_size=6)), draw(st.lists(records(), max_size=6))]
    if draw(st.integers(0, 14)) == 0:
        # a burst of small records (acks, pings, closes) that TCP may hand over in a single read
        d_ = draw(st.integers(0, 1))
        nb = draw(st.sampled_from([64, 99, 100, 101, 128, 255, 256, 257, 300]))
        c["recs"][d_] = [draw(st.sampled_from([["ack", k], ["ping", bytes([k % 256]) * 4], ["close", k, k]])) for k in range(nb)]
        c["burst"] = True
    c["hostile"] = draw(st.sampled_from([None, None, None, "prologue", "relayreply", "psk", "otherkey", "flip",
                                         "flip", "truncate", "zerolen", "biglen"]))
    c["victim"] = draw(st.integers(0, 1))
    c["hparam"] = draw(st.integers(0, 2 ** 20))
    n = draw(st.integers(0, 120))
    c["tape"] = draw(st.binary(min_size=n, max_size=n))
    return c


@st.composite
def session_cases(draw, tier="quick"):
    """several L2 connections in one process: one or two independently keyed dilation sessions, each with up to
    three connection pairs of which at most one is selected; the others stay candidates for ever or are lost
    after the Leader's KCM and first records were received (parked) on the Follower end"""
    c = {"part": "sessions"}
    c["nsess"] = draw(st.integers(1, 2))
    pairs = []
    chosen = set()
    for k in range(draw(st.integers(1, 4))):
        sess = draw(st.integers(0, c["nsess"] - 1))
        fate = draw(st.sampled_from(["select", "drop", "drop", "idle"]))
        if fate == "select":
            if sess in chosen:
                fate = "drop"
            chosen.add(sess)
        pairs.append(dict(sess=sess, fate=fate, early=draw(st.integers(0, 3)), late=draw(st.integers(0, 2)),
                          big=draw(st.integers(0, 9)) == 0))
    c["pairs"] = pairs
    c["sequential"] = draw(st.booleans())     # finish one pair before the next one starts
    n = draw(st.integers(0, 150))
    c["tape"] = draw(st.binary(min_size=n, max_size=n))
    return c


def strategy(tier, part="main"):
    if part == "sessions":
        return session_cases(tier)
    return cases(tier)


def run_sessions(c):
    """nothing from a connection that was never selected reaches a manager; a selected connection hands over
    exactly what its own peer sent, however many other connections (of this or of another session) exist"""
    from wormhole._dilation import connection as C
    from wormhole._dilation.roles import LEADER, FOLLOWER
    from twisted.python.failure import Failure
    from twisted.internet.error import ConnectionDone
    res = CaseResult()
    tape = Tape(c["tape"])
    keys = [bytes([0x41 + s]) * 32 for s in range(c["nsess"])]
    fmgr = [ManagerStub() for _ in keys]              # one Follower-side manager per session
    pairs = []
    exc = []
    for k, pc in enumerate(c["pairs"]):
        key = keys[pc["sess"]]
        lcs, lp, lt = make_end(LEADER, key)
        fcs, fp, ft = make_end(FOLLOWER, key)
        pairs.append(dict(k=k, pc=pc, L=dict(cs=lcs, p=lp, t=lt, m=ManagerStub()), F=dict(cs=fcs, p=fp, t=ft),
                          started=False, lsel=False, resolved=None, sent=[], early=pc["early"], late=pc["late"]))

    def rec(pr):
        n = 70000 if (pr["pc"]["big"] and not pr["sent"]) else 5
        r = C.Data(len(pr["sent"]), 100 * pr["k"] + 1, bytes([pr["k"] * 16 + len(pr["sent"])]) * n)
        return r

    def push(src, dst, n):
        buf = src["t"].out
        n = len(buf) if n is None else max(1, min(n, len(buf)))
        data = bytes(buf[:n])
        del buf[:n]
        if dst["t"].lose:
            return
        try:
            dst["p"].dataReceived(data)
        except Exception as ex:
            exc.append(ex)
            dst["t"].lose += 1

    steps = 0
    parked_then_gone = 0
    for _ in range(3000):
        acts = []
        for pr in pairs:
            if not pr["started"]:
                if not c["sequential"] or all(q["resolved"] is not None or q["pc"]["fate"] == "idle" and q["lsel"] and not q["L"]["t"].out
                                               for q in pairs[:pr["k"]]):
                    acts.append(("start", pr))
                if c["sequential"]:
                    break
                continue
            L, F = pr["L"], pr["F"]
            if L["t"].out and not F["t"].lose and pr["resolved"] != "drop":
                acts.append(("L>F", pr))
            if F["t"].out and not L["t"].lose:
                acts.append(("F>L", pr))
            if L["cs"].candidates and not pr["lsel"]:
                acts.append(("lselect", pr))
            if pr["lsel"] and pr["early"]:
                acts.append(("early", pr))
            if F["cs"].candidates and pr["resolved"] is None and pr["pc"]["fate"] != "idle":
                acts.append(("resolve", pr))
            if pr["resolved"] == "select" and pr["late"]:
                acts.append(("late", pr))
        if not acts:
            break
        steps += 1
        a, pr = acts[tape.below(len(acts))]
        L, F = pr["L"], pr["F"]
        if a == "start":
            pr["started"] = True
            for e in (L, F):
                e["t"].out = bytearray()
                e["p"].makeConnection(e["t"])
        elif a in ("L>F", "F>L"):
            n = CHUNKS[tape.below(len(CHUNKS))] if not tape.exhausted() else None
            push(L, F, n) if a == "L>F" else push(F, L, n)
        elif a == "lselect":
            pr["lsel"] = True
            lp = L["cs"].candidates[0]
            lp.select(L["m"])
            lp.send_record(C.KCM())
        elif a in ("early", "late"):
            pr[a] -= 1
            r = rec(pr)
            L["p"].send_record(r)
            pr["sent"].append(r)
        elif a == "resolve":
            if pr["pc"]["fate"] == "select":
                pr["resolved"] = "select"
                F["cs"].candidates[0].select(fmgr[pr["pc"]["sess"]])
            else:
                pr["resolved"] = "drop"
                if getattr(F["p"], "_inbound_record_queue", None):
                    parked_then_gone += 1
                F["t"].lose += 1
                try:
                    F["p"].connectionLost(Failure(ConnectionDone()))
                except Exception as ex:
                    exc.append(ex)
    # ---- oracle
    for s, m in enumerate(fmgr):
        sel = [pr for pr in pairs if pr["pc"]["sess"] == s and pr["resolved"] == "select"]
        exp = sel[0]["sent"] if sel else []
        got = m.records
        if got != exp[:len(got)]:
            res.violate("reject", "session %d: the Follower's manager was handed %s; the selected connection's peer sent %s "
                        "(pairs: %s)" % (s, _brief(got), _brief(exp), [(q["pc"]["sess"], q["resolved"] or q["pc"]["fate"], len(q["sent"])) for q in pairs]),
                        input_class="records-of-an-unselected-connection-surfaced")
        elif sel and not sel[0]["F"]["t"].lose and not sel[0]["L"]["t"].out and len(got) != len(exp):
            res.violate("roundtrip", "session %d: the selected connection surfaced %d of %d records" % (s, len(got), len(exp)),
                        input_class="records-missing:sessions")
    for pr in pairs:
        if pr["L"]["m"].records:
            res.violate("reject", "a Leader end was handed records nobody sent", input_class="records-of-an-unselected-connection-surfaced")
    for ex in exc:
        if not isinstance(ex, C.Disconnect):
            res.violate("roundtrip", "L2 connection raised %r with several connections in the process" % ex,
                        input_class="dataReceived-raises:%s:sessions" % type(ex).__name__, exc=type(ex).__name__)
            break
    nsel = sum(1 for pr in pairs if pr["resolved"] == "select")
    unsel_with_records = sum(1 for pr in pairs if pr["resolved"] != "select" and pr["sent"])
    res.nontrivial = bool(nsel and unsel_with_records)
    res.features = dict(part="sessions", nsess=c["nsess"], npairs=len(pairs), selected=nsel,
                        unselected_with_records=common.bucket(unsel_with_records, [0, 1, 2]),
                        parked_then_lost=common.bucket(parked_then_gone, [0, 1]), seq=c["sequential"])
    res.trace = ";".join("%d%s%d%d" % (pr["pc"]["sess"], (pr["resolved"] or "-")[0], len(pr["sent"]), pr["pc"]["big"]) for pr in pairs) + "|%d" % steps
    res.steps = steps
    res.sample = dict(pairs=[dict(sess=pr["pc"]["sess"], fate=pr["pc"]["fate"], resolved=pr["resolved"], sent=len(pr["sent"])) for pr in pairs],
                      surfaced=[len(m.records) for m in fmgr])
    return res


def mkrec(r):
    from wormhole._dilation import connection as C
    k = r[0]
    if k == "ping":
        return C.Ping(r[1])
    if k == "pong":
        return C.Pong(r[1])
    if k == "open":
        return C.Open(r[2], r[1], r[3])
    if k == "data":
        return C.Data(r[2], r[1], bytes([r[4]]) * r[3])
    if k == "close":
        return C.Close(r[2], r[1])
    return C.Ack(r[1])


class Pipe:
    """ITransport-ish byte pipe end"""
    def __init__(self):
        self.out = bytearray()
        self.lose = 0
        self.disconnecting = False
        self.writes = []      # (stream offset, length, label): label = record index or "hs"
        self.total = 0
        self.label = "hs"

    def write(self, data):
        assert isinstance(data, bytes)
        if not self.lose:
            self.writes.append((self.total, len(data), self.label))
            self.total += len(data)
            self.out += data

    def writeSequence(self, seq):
        self.write(b"".join(seq))

    def loseConnection(self):
        self.lose += 1
        self.disconnecting = True

    def getPeer(self):
        return None

    def getHost(self):
        return None


class ManagerStub:
    def __init__(self):
        self.records = []
        self.peer = 0
        self.lost = 0

    def got_record(self, r):
        self.records.append(r)

    def have_peer(self, conn):
        self.peer += 1

    def connector_connection_lost(self):
        self.lost += 1


def make_end(role, key, use_relay_handshake=None):
    from wormhole._dilation.connector import Connector
    from wormhole._interfaces import IDilationConnector
    from wormhole.eventual import EventualQueue
    from twisted.internet.task import Clock
    from twisted.internet.interfaces import ITransport
    from zope.interface import directlyProvides

    @implementer(IDilationConnector)
    class ConnStub:
        def __init__(self):
            self._dilation_key = key
            self._role = role
            self._eventual_queue = EventualQueue(Clock())
            self.candidates = []
            self._pending_connections = set()     # Connector.build_protocol registers what it builds

        def add_candidate(self, c):
            self.candidates.append(c)

        def __getattr__(self, name):
            # whatever else Connector.build_protocol may want from its Connector (bookkeeping that
            # is irrelevant to the L2 byte stream) is absorbed, so a refactoring there does not break this check
            if name.startswith("__"):
                raise AttributeError(name)
            from unittest import mock
            m = mock.MagicMock(name=name)
            object.__setattr__(self, name, m)
            return m
    cs = ConnStub()
    p = Connector.build_protocol(cs, None, "desc")
    if use_relay_handshake is not None:
        p.use_relay(use_relay_handshake)
    t = Pipe()
    directlyProvides(t, ITransport)
    return cs, p, t


CHUNKS = [1, 1, 1, 2, 3, 4, 5, 44, 45, 46, 47, 48, 49, 96, 1000, 65534, 65535, 65536, None, None, None]


def run_case(c):
    if c.get("part") == "sessions":
        return run_sessions(c)
    from wormhole._dilation import connection as C
    from wormhole._dilation.roles import LEADER, FOLLOWER
    res = CaseResult()
    tape = Tape(c["tape"])
    hostile = c["hostile"]
    victim = c["victim"]                      # 0 = leader end, 1 = follower end
    relay_hs = b"please relay XYZ for side abc\n"
    ends = []
    for i, role in enumerate((LEADER, FOLLOWER)):
        use_relay = (c["relay"] == ("leader", "follower")[i])
        peer_key = KEY
        if hostile == "psk" and i != victim:
            peer_key = b"\x22" * 32           # the other party does not hold the dilation key
        cs, p, t = make_end(role, peer_key, relay_hs if use_relay else None)
        m = ManagerStub()
        ends.append(dict(cs=cs, p=p, t=t, m=m, selected=False, relay=use_relay, relay_pending=use_relay,
                         kcm_sent=False, delivered_in=0))
    L, F = ends
    exc = []
    split_frames = [0]
    nsteps = [0]

    def deliver(src, dst, n=None, data=None):
        """move bytes from src's out buffer into dst.dataReceived"""
        if data is None:
            buf = src["t"].out
            pre = dst.get("prefix") or bytearray()       # the relay's reply travels in front of the peer's bytes
            total = len(pre) + len(buf)
            n = total if n is None else max(1, min(n, total))
            k = min(n, len(pre))
            data = bytes(pre[:k]) + bytes(buf[:n - k])
            del pre[:k]
            del buf[:n - k]
        if dst["t"].lose or not data:
            return
        dst["delivered_in"] += len(data)
        nsteps[0] += 1
        try:
            dst["p"].dataReceived(data)
        except Exception as ex:
            exc.append(ex)
            dst["t"].lose += 1

    def relay_phase(e):
        # the "relay" consumes the relay handshake and answers ok (or something else)
        if e["relay_pending"] and e["t"].out.startswith(relay_hs):
            del e["t"].out[:len(relay_hs)]
            e["relay_pending"] = False
            reply = b"ok\n"
            if hostile == "relayreply" and ends.index(e) == victim:
                reply = [b"no\n", b"okay\n", b"o", b"\n", b"ok\r\n", b"impatient\n"][c["hparam"] % 6]
                e["hostile_done"] = True
            if c.get("relay_coalesce") and hostile != "prologue":     # (that variant rewrites the prologue the
                # relayed end has already written, so it needs the reply delivered first)
                e["prefix"] = bytearray(reply)        # TCP may coalesce it with what the relay forwards next
            else:
                deliver(None, e, data=reply)

    def select_step():
        # leader: candidate -> select + KCM; follower: candidate -> select
        for e in ends:
            if e["cs"].candidates and not e["selected"]:
                if c["late_select"] and not e.get("waited"):
                    e["waited"] = True
                    continue
                e["selected"] = True
                p = e["cs"].candidates[0]
                p.select(e["m"])
                if e is L:
                    p.send_record(C.KCM())

    for e in ends:
        e["t"].out = bytearray()
        e["p"].makeConnection(e["t"])
    # ---- hostile replacement of the non-victim's byte stream before/at handshake level
    V, O = ends[victim], ends[1 - victim]
    first_affected = None          # index into the records sent TO the victim; None = all fine
    expect_drop = False
    if hostile == "prologue":
        good = bytes(O["t"].out) if not O["relay"] else None
        for e in ends:
            relay_phase(e)
        good = bytes(O["t"].out)
        variants = [good[:10] + b"X" + good[11:], bytes(V["t"].out)[:len(good)] or b"junk\n\n", b"junk without newline" * 4,
                    b"\n", good[:-1] + b"x", b"Magic-Wormhole Dilation Handshake v2 Leader\n\n", good.replace(b"\n\n", b"\n \n")]
        bad = variants[c["hparam"] % len(variants)]
        O["t"].out = bytearray(bad + bytes(O["t"].out)[len(good):])
        first_affected = 0
        expect_drop = (b"\n" in bad) or len(bad) >= len(good)
    sent = [[], []]       # records sent by leader(0) / follower(1) after selection
    pending = [list(c["recs"][0]), list(c["recs"][1])]
    flip_done = [False]

    def hostile_stream_op():
        """apply flip/truncate/zerolen/biglen/otherkey to the stream heading to the victim, once both ends
        are selected and at least something is queued"""
        nonlocal first_affected, expect_drop
        if flip_done[0] or hostile not in ("flip", "truncate", "zerolen", "biglen", "otherkey"):
            return
        if not (L["selected"] and F["selected"]):
            return
        buf = O["t"].out
        nrec_before = len(sent[1 - victim])
        if hostile in ("zerolen", "biglen", "otherkey"):
            if hostile == "zerolen":
                junk = struct.pack(">L", 0)
            elif hostile == "biglen":
                ln = [65536, 70000, 65552][c["hparam"] % 3]
                junk = struct.pack(">L", ln) + bytes((c["hparam"] + k) % 256 for k in range(ln))
            else:
                # a correctly framed record encrypted in a different Noise session (other key)
                from noise.connection import NoiseConnection
                a = NoiseConnection.from_name(b"Noise_NNpsk0_25519_ChaChaPoly_BLAKE2s")
                b = NoiseConnection.from_name(b"Noise_NNpsk0_25519_ChaChaPoly_BLAKE2s")
                for x, ini in ((a, True), (b, False)):
                    x.set_psks(b"\x33" * 32)
                    x.set_as_initiator() if ini else x.set_as_responder()
                    x.start_handshake()
                b.read_message(a.write_message())
                a.read_message(b.write_message())
                ct = a.encrypt(C.encode_record(C.Data(1, 1, b"forged")))
                junk = struct.pack(">L", len(ct)) + ct
            # inject at a record boundary: only when nothing is half-delivered, i.e. buffer empty
            if len(buf) == 0:
                buf += junk
                first_affected = nrec_before
                expect_drop = True
                flip_done[0] = True
            return
        if len(buf) == 0:
            return
        off = c["hparam"] % len(buf)
        t_o = O["t"]
        abs_off = (t_o.total - len(buf)) + off
        hit = [w for w in t_o.writes if w[0] <= abs_off < w[0] + w[1]]
        if not hit or hit[0][1] < 4:
            return
        w0, wl, label = hit[0]
        if label == "hs":
            if wl in (len(C_PROLOGUES[0]), len(C_PROLOGUES[1])) or not (L["selected"] and F["selected"]):
                return
            first_affected = 0
        else:
            first_affected = label
        p0 = w0
        if hostile == "flip":
            buf[off] ^= 1 << (c["hparam"] // 7 % 8)
            in_length = abs_off < p0 + 4
            expect_drop = not in_length
        else:
            del buf[off:]
            O["t"].lose += 1          # the stream ends here
            V["eof_after"] = True
            expect_drop = False
        flip_done[0] = True

    for step in range(4000):
        for e in ends:
            relay_phase(e)
        select_step()
        ready = L["selected"] and F["selected"]
        choices = []
        if (L["t"].out or F.get("prefix")) and not F["t"].lose:
            choices.append("L>F")
        if (F["t"].out or L.get("prefix")) and not L["t"].lose:
            choices.append("F>L")
        for i in range(2):
            # an end may send as soon as it is selected itself (the Leader replays its queue right
            # after its KCM, so the Follower sees records before its own select())
            if ends[i]["selected"] and pending[i] and not ends[i]["t"].lose:
                choices.append("send%d" % i)
        if not choices:
            if any(e["cs"].candidates and not e["selected"] for e in ends):
                continue
            break
        ch = choices[tape.below(len(choices))]
        if c.get("burst") and any(x.startswith("send") for x in choices):
            # the application writes the whole burst before the reactor gets to the socket again
            ch = [x for x in choices if x.startswith("send")][0]
        if ch.startswith("send"):
            i = int(ch[4])
            r = mkrec(pending[i].pop(0))
            try:
                ends[i]["t"].label = len(sent[i])
                ends[i]["p"].send_record(r)
                ends[i]["t"].label = "hs"
                sent[i].append(r)
            except Exception as ex:
                exc.append(ex)
                res.violate("roundtrip", "send_record(%s) raised %r" % (type(r).__name__, ex),
                            input_class="send_record-raises:%s" % type(ex).__name__, exc=type(ex).__name__)
                break
            continue
        src, dst = (L, F) if ch == "L>F" else (F, L)
        if dst is V:
            hostile_stream_op()
        n = CHUNKS[tape.below(len(CHUNKS))] if not tape.exhausted() else None
        if c.get("burst") and n is not None and n < 1000:
            n = None
        before = len(src["t"].out)
        # a frame is "split" if this chunk ends inside it
        if n is not None and n < before:
            split_frames[0] += 1
        # keep track of whether the victim-bound buffer starts at a frame boundary
        if dst is V:
            buf = src["t"].out
            take = before if n is None else min(max(1, n), before)
            pos = 0
            partial = False
            if ready and not V.get("partial"):
                while pos < take:
                    if pos + 4 > len(buf):
                        partial = True
                        break
                    ln = struct.unpack(">L", bytes(buf[pos:pos + 4]))[0]
                    pos += 4 + ln
                partial = partial or pos != take
            elif V.get("partial"):
                partial = True     # conservatively: stay partial until the buffer drains
                if take == before:
                    partial = False
            V["partial"] = partial
        deliver(src, dst, n)
    # ---- oracle
    for i, e in enumerate(ends):
        got = e["m"].records
        exp = sent[1 - i]
        limit = len(exp)
        if i == victim and first_affected is not None:
            limit = min(limit, first_affected)
        if i != victim and hostile in ("prologue", "psk", "relayreply"):
            pass
        if got != exp[:len(got)] or len(got) > limit:
            res.violate("roundtrip" if hostile is None else "reject",
                        "end %d surfaced %s; peer sent %s; hostile=%s first_affected=%r" % (
                            i, _brief(got), _brief(exp), hostile, first_affected),
                        input_class=("records-differ" if hostile is None else "surfaced-at-or-after-hostile:%s" % hostile))
        elif hostile is None and got != exp:
            res.violate("roundtrip", "end %d surfaced %d of %d records: %s vs %s" % (
                i, len(got), len(exp), _brief(got), _brief(exp)), input_class="records-missing")
    if hostile is None:
        # under any fragmentation an honest, correctly keyed pair must get through the prologue and the Noise
        # handshake: nobody hangs up, both ends are selected, everything queued could be handed over
        if L["t"].lose or F["t"].lose or not (L["selected"] and F["selected"]) or pending[0] or pending[1]:
            res.violate("roundtrip", "honest pair did not establish the L2 connection: hung up L/F=%d/%d, selected "
                        "L/F=%s/%s, records never handed over: %d" % (L["t"].lose, F["t"].lose, L["selected"], F["selected"],
                                                                       len(pending[0]) + len(pending[1])),
                        input_class="honest-connection-dropped")
    if hostile in ("psk", "relayreply"):
        expect_drop = True
        first_affected = 0
    if hostile is not None and expect_drop and first_affected is not None:
        if hostile in ("psk",):
            dropped = L["t"].lose or F["t"].lose
        else:
            dropped = V["t"].lose
        applied = flip_done[0] or hostile in ("prologue", "psk", "relayreply")
        if hostile == "relayreply" and not V.get("hostile_done"):
            applied = False
        if applied and not dropped and not (L["t"].out or F["t"].out or L.get("prefix") or F.get("prefix")):
            res.violate("reject", "hostile element (%s, param %d) fully delivered but the victim did not close" % (
                hostile, c["hparam"]), input_class="not-dropped:%s" % hostile)
        if hostile in ("prologue", "psk", "relayreply") and applied and (L["m"].records or F["m"].records or
                                                                         L["m"].peer or F["m"].peer):
            res.violate("reject", "manager reached despite %s" % hostile, input_class="manager-reached:%s" % hostile)
    for ex in exc:
        if not isinstance(ex, (C.Disconnect,)):
            res.violate("reject" if hostile else "roundtrip", "dataReceived raised %r (hostile=%s)" % (ex, hostile),
                        input_class="dataReceived-raises:%s:%s" % (type(ex).__name__, hostile or "honest"),
                        exc=type(ex).__name__)
            break
    big = any(r[0] == "data" and r[3] > 65510 or (r[0] == "open" and len(r[3]) > 60000) for rs in c["recs"] for r in rs)
    res.nontrivial = bool(big or split_frames[0] >= 1 or hostile)
    res.features = dict(hostile=hostile or "-", relay=c["relay"] or "-", late=c["late_select"], big=bool(big), burst=bool(c.get("burst")),
                        split=common.bucket(split_frames[0], [0, 1, 5]), nrec=common.bucket(len(sent[0]) + len(sent[1]), [0, 1, 4]))
    res.trace = ",".join("%s%d" % (r[0], r[3] if r[0] == "data" else 0) for rs in c["recs"] for r in rs) + "|%d" % nsteps[0]
    res.steps = nsteps[0]
    res.sample = dict(hostile=hostile, victim=victim, relay=c["relay"], recs=[[r[:4] if r[0] != "open" else [r[0], r[1], r[2], r[3][:20]] for r in rs] for rs in c["recs"]],
                      surfaced=[len(L["m"].records), len(F["m"].records)], dropped=[L["t"].lose, F["t"].lose])
    return res


def _brief(recs):
    out = []
    for r in recs[:8]:
        n = type(r).__name__
        if n == "Data":
            out.append("Data(%d,%d,len=%d)" % (r.seqnum, r.scid, len(r.data)))
        elif n == "Open":
            out.append("Open(%d,%d,%r)" % (r.seqnum, r.scid, r.subprotocol[:12]))
        else:
            out.append(repr(r)[:40])
    if len(recs) > 8:
        out.append("..+%d" % (len(recs) - 8))
    return "[" + ", ".join(out) + "]"


# ------------------------------------------------------------------ coverage-guided supplement (thorough tier)
def extra(tier, seed):
    """atheris/libFuzzer campaign on the unkeyed byte stream (harness/fuzz_c12.py); Hypothesis above remains
    the deciding engine, nothing is claimed on this alone.  Skipped when atheris is not installed."""
    import os, sys, glob, shutil, subprocess, re, struct, tempfile
    from runner import VERIF
    if tier != "thorough":
        return dict(violations=[], coverage=dict(atheris="not run in the quick tier"))
    deps = os.path.join(VERIF, ".deps")
    if not os.path.isdir(os.path.join(deps, "atheris")):
        return dict(violations=[], coverage=dict(atheris="not installed; supplement skipped"))
    os.makedirs(os.path.join(VERIF, "scratch"), exist_ok=True)
    work = tempfile.mkdtemp(prefix="c12fz-", dir=os.path.join(VERIF, "scratch"))
    corpus = os.path.join(work, "corpus")
    os.makedirs(corpus)
    # a few small valid-looking inputs so the fuzzer starts past the prologue (and past a relay reply)
    seeds = []
    for role_bit, prologue in ((1, C_PROLOGUES[1]), (0, C_PROLOGUES[0])):
        seeds.append(bytes([role_bit, 200]) + prologue)
        seeds.append(bytes([role_bit, 7]) + prologue + struct.pack(">L", 48) + bytes(48))
        seeds.append(bytes([role_bit | 2, 50]) + b"ok\n" + prologue + struct.pack(">L", 48) + bytes(range(48)))
        seeds.append(bytes([role_bit, 3]) + prologue + struct.pack(">L", 0) + struct.pack(">L", 70000))
    for k, sd in enumerate(seeds):
        with open(os.path.join(corpus, "seed%d" % k), "wb") as f:
            f.write(sd)
    runs = 400000
    env = dict(os.environ, PYTHONHASHSEED="0")
    cmd = [sys.executable, os.path.join(VERIF, "harness", "fuzz_c12.py"), "-runs=%d" % runs, "-seed=%d" % (seed or 1),
           "-max_len=600", "-artifact_prefix=" + work + os.sep, corpus]
    viol = []
    try:
        r = subprocess.run(cmd, env=env, capture_output=True, text=True, timeout=1500)
        out = r.stdout + r.stderr
        m = re.search(r"Done (\d+) runs", out)
        done = int(m.group(1)) if m else 0
        crashes = sorted(glob.glob(os.path.join(work, "crash-*")))
        for cf in crashes[:1]:
            with open(cf, "rb") as f:
                data = f.read()
            tail = [l for l in out.splitlines() if "Error" in l or "assert" in l.lower()][-3:]
            viol.append(dict(clause="reject", detail="atheris input %s: %s" % (data[:64].hex(), " | ".join(tail)[:400]),
                             input_class="unkeyed-bytes-crash-or-surface", exc=None, frame=None,
                             params=dict(fuzz_input=data), part="fuzz"))
        cov = dict(atheris_runs=done, atheris_corpus=len(os.listdir(corpus)), atheris_crashes=len(crashes),
                   atheris_note="coverage-guided supplement on the unkeyed stream; -seed pins a campaign only approximately")
    except subprocess.TimeoutExpired:
        cov = dict(atheris="campaign hit its wall budget: inconclusive")
    finally:
        shutil.rmtree(work, ignore_errors=True)
    return dict(violations=viol, coverage=cov)


def run_part_case(part, params):
    """replay of an atheris finding, without atheris"""
    from wormhole._dilation.roles import LEADER, FOLLOWER
    res = CaseResult()
    data = params["fuzz_input"]
    if len(data) < 2:
        return res
    role = LEADER if data[0] & 1 else FOLLOWER
    relay = b"please relay X for side y\n" if data[0] & 2 else None
    chunk = 1 + (data[1] % 97)
    body = bytes(data[2:])
    cs, p, t = make_end(role, KEY, relay)
    m = ManagerStub()
    p.makeConnection(t)
    pos = 0
    try:
        while pos < len(body) and not t.lose:
            p.dataReceived(body[pos:pos + chunk])
            pos += chunk
    except Exception as ex:
        res.violate("reject", "unkeyed bytes made dataReceived raise %r" % ex, input_class="unkeyed-bytes-crash-or-surface",
                    exc=type(ex).__name__)
    if cs.candidates or m.records or m.peer:
        res.violate("reject", "unkeyed bytes reached the connector/manager", input_class="unkeyed-bytes-crash-or-surface")
    return res
