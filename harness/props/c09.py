# C09 - mailbox session survives connection loss: nothing lost, nothing repeated.
from hypothesis import strategies as st
from runner import CaseResult
import mbworld
from props import common
CASE_WALL_S = 12

ID = "C09"
TIERS = {"quick": dict(examples=2000), "thorough": dict(examples=60000)}
RULE = ("Honest pair (matching codes; set/allocate/input code entry; both API styles), 0-6 messages each way, "
        "1-8 mailbox-connection losses placed by the tape between ANY two scheduler events (so commands and "
        "responses are lost in flight), no other adversity. Oracle after stabilisation with stable connectivity: "
        "both sides have equal verifiers and the peer's versions, every send_message was delivered once and in "
        "order, no application event occurred twice, the server never answered a client command with `error`, "
        "every connection's first command was `bind`, nothing was logged as an error, and the fault-free "
        "stabilisation did not loop through reconnects. Non-trivial = >=1 loss while a command/response was in "
        "flight or while the client had un-echoed outbound messages. Distinct = (features, event-kind trace).")
RULE += (' Added later: WebSocket CLOSING window on graceful closes; outages of 3-12 consecutive failed reconnection attempts (the simulated ClientService calls the retry policy it was given).')
ASSUMPTIONS = ["simulated WebSocket layer (whole JSON messages, loss discards both queues)",
               "real wormhole_mailbox_server protocol + sqlite in memory",
               "'eventually' = quiescent within 1500 fair steps after the last fault"]


@st.composite
def cases(draw, tier="quick"):
    P = {}
    P["mode"] = draw(st.sampled_from(["delegate", "deferred"]))
    P["codemode"] = draw(st.sampled_from([["set", "set"], ["alloc", "fromA"], ["set", "input"],
                                          ["alloc", "input"], ["input", "alloc"]]))
    if P["codemode"] == ["input", "alloc"]:
        P["codemode"] = ["alloc", "input"]
    payload = st.one_of(st.binary(max_size=30), st.sampled_from([b"same", b""]))
    # (now and then a message of a few kilobytes, or around a power of two)
    payload = st.one_of(payload, payload, payload, st.sampled_from([2008, 2009, 2048, 4096, 5000, 16384]).map(lambda n: b"\xa7" * n))
    P["sends"] = [draw(st.lists(payload, max_size=6)), draw(st.lists(payload, max_size=6))]
    P["drops"] = draw(st.integers(1, 8))
    P["w_drop"] = draw(st.sampled_from([1, 2, 4]))
    P["input_refresh"] = draw(st.booleans())
    P["hs_fail"] = draw(st.sampled_from([[0, 0], [0, 0], [1, 0], [0, 2], [1, 1]]))
    P["hs_slow"] = draw(st.sampled_from([[False, False], [False, False], [True, False], [True, True]]))
    n = draw(st.integers(10, 300))
    P["closing_drops"] = draw(st.booleans())   # graceful server closes pass through the WebSocket CLOSING state
    # outages: a budget of reconnection attempts that fail at the TCP level, several in a row
    P["re_refuse"] = draw(st.sampled_from([[0, 0], [0, 0], [3, 0], [0, 7], [12, 12]]))
    P["tape"] = draw(st.binary(min_size=n, max_size=n))
    return P


def strategy(tier):
    return cases(tier)


def run_case(P):
    res = CaseResult()
    rec = mbworld.run(P)
    res.steps = rec.world.steps
    snap = rec.stable_snapshot
    if any(s == "reconnect-loop" for s in rec.settle):
        res.violate("resume", "fault-free stabilisation kept reconnecting: %r; errors %r" % (
            rec.settle, rec.errors[:2]), input_class="reconnect-loop-without-faults")
    elif not all(s == "quiescent" for s in rec.settle):
        res.inconclusive = True
    else:
        for i in range(2):
            k = snap["kinds"][i]
            if "verifier" not in k or "versions" not in k:
                res.violate("completes", "side %d events at quiescence: %r" % (i, k),
                            input_class="key-exchange-incomplete-after-reconnects")
            if snap["msgs"][i] != snap["sent"][1 - i]:
                res.violate("delivery", "side %d received %s, peer sent %s" % (
                    i, common.short(snap["msgs"][i]), common.short(snap["sent"][1 - i])),
                    input_class="message-lost-or-repeated-after-reconnects")
            for once in ("code", "key", "verifier", "versions"):   # welcome is per connection by design
                if k.count(once) > 1 and P["mode"] == "delegate":
                    res.violate("repeat", "side %d saw %s %d times" % (i, once, k.count(once)),
                                input_class="event-repeated-after-reconnect")
        v = [[e[1] for e in rec.evs[i] if e[0] == "verifier"] for i in range(2)]
        if v[0] and v[1] and v[0][0] != v[1][0]:
            res.violate("completes", "verifiers differ", input_class="verifiers-differ")
    # conformant resumption: the server never has to answer `error`, each connection starts with bind
    for (name, n, msg) in rec.world.srvlog:
        if msg.get("type") == "error" and name in ("c0", "c1"):
            res.violate("resume", "server answered %s conn %d with error %r to %r" % (
                name, n, msg.get("error"), (msg.get("orig") or {}).get("type")),
                input_class="server-error-reply:%s" % (msg.get("orig") or {}).get("type"))
            break
    first = {}
    for (name, n, cmd) in rec.world.cmdlog:
        first.setdefault((name, n), cmd.get("type"))
    for (name, n), t in sorted(first.items()):
        if name in ("c0", "c1") and t != "bind":
            res.violate("resume", "%s connection %d started with %r" % (name, n, t),
                        input_class="connection-not-started-with-bind")
            break
    for (exc, frame, msg) in rec.errors:
        res.violate("errlog", "%s at %s: %s" % (exc, frame, msg), input_class="error-log", exc=exc, frame=frame)
        break
    res.nontrivial = rec.inflight_at_drop >= 1 or rec.pending_at_drop >= 1 or rec.adv["hsfail"] >= 1
    res.features = dict(mode=P["mode"], code="/".join(P["codemode"]), drops=common.bucket(rec.drops, [0, 1, 2, 4]),
                        inflight=common.bucket(rec.inflight_at_drop, [0, 1, 2]),
                        pend=common.bucket(rec.pending_at_drop, [0, 1]), hsfail=min(rec.adv["hsfail"], 2))
    for (i, ns, ms, as_) in rec.drop_states:
        res.notes["drop@N=%s,M=%s,A=%s" % (ns, ms, as_)] += 1
    res.notes["drops"] += rec.drops
    res.notes["consecutive_failed_reconnects>=5"] += int(getattr(rec.world, "max_failed_attempts", 0) >= 5)
    res.notes["consecutive_failed_reconnects>=2"] += int(getattr(rec.world, "max_failed_attempts", 0) >= 2)
    res.notes["failed_ws_negotiations_on_reconnect"] += rec.adv["hsfail"]
    res.trace = mbworld.abstract_trace(rec)
    res.sample = dict(params=P, drops=rec.drops, drop_states=rec.drop_states[:6],
                      received=[len(rec.msgs(0)), len(rec.msgs(1))])
    return res
