# C04 - a completed transfer is byte-exact; success is never reported otherwise.
import os, io, ast, json, shutil, hashlib, tempfile, collections
from hypothesis import strategies as st
from runner import CaseResult, VERIF
from props import common
from simworld import World, Tape, NodeReactor
CASE_WALL_S = 60

ID = "C04"
TIERS = {"quick": dict(examples=600), "thorough": dict(examples=15000)}
RULE = ("The real CLI cmd_send.send() and cmd_receive.receive() run end to end in the simulated world (real "
        "mailbox server, real Transit over simulated TCP, real temp directories). Payload: text (any Unicode "
        "without surrogates incl. quotes/newlines/control/wide chars); a file of size 0, 1, 16383..16385, "
        "2*16384+-1 or random <=200 KiB; a directory tree (depth <=3, empty dirs, 0-byte files, names with "
        "spaces, leading dots/dashes, Unicode, 200 chars). Code set or allocated, listeners on/off; optionally the "
        "leftover <name>.tmp of an earlier interrupted attempt lies in the receiving directory. Fault: none; "
        "cut the sender->receiver data stream after byte k; flip byte k; replace a record by a byte-exact copy of the previous one; cut the link when the acknowledgement is "
        "written; the receiver's acknowledgement carries a wrong / empty / null hash. Faults are applied only to "
        "the SELECTED transit link once both ends are in 'records' state. Oracle: both report success => received "
        "tree/file is byte-for-byte the source (same relative paths, empty dirs present), text equals the printed "
        "line after Python-literal unescaping; data fault => neither side reports success and no final "
        "destination path exists; ack lost or hash differs => the sender does not report success; no fault => "
        "both succeed. A side that never finishes is counted, not a violation. Non-trivial = payload larger than "
        "one transit record, a tree with >=2 entries, or any fault. Distinct = (features, event-kind trace).")
RULE += (" Added later: `receive -o NAME`; the sender's file grows or is overwritten after the offer was made (reference = the records the sender handed to its transit connection, i.e. what it read).")
ASSUMPTIONS = ["simulated mailbox/TCP layers per DESIGN 2.1", "permissions and mtimes are not compared",
               "--verify, Tor and interactive code entry are outside the driver"]

NAMES = ["a", "file.txt", "with space", ".hidden", "-dash", "ünï", "日本", "x" * 200, "UPPER", "a.b.c", "tmp.tmp"]
# names/text that Unicode normalisation would change (decomposed accents, OHM SIGN, ANGSTROM SIGN, jamo,
# compatibility ligature): a transfer must reproduce them code point for code point
NAMES += ["e\u0301cole", "\u2126hm", "\u212bng", "\u1112\u1161\u11ab", "o\ufb03ce"]
# a backslash is an ordinary file-name character on POSIX; names that are not valid UTF-8 (legacy encodings)
# appear to Python as lone surrogates (surrogateescape)
NAMES += ["report\\2024.txt", "..\\up", "caf\udce9.txt", "caf\udce8.txt"]
ODD_TEXT = ["e\u0301", "\u2126 \u212b", "\u1112\u1161\u11ab", "o\ufb03ce \u00b2", "it's \"quoted\"\n\ttab", "\u00fc\u00f1\u00ed \u2603 \x07",
            "back\\slash", "'", '"', "\\n"]


@st.composite
def trees(draw, depth=0):
    entries = {}
    for name in draw(st.lists(st.sampled_from(NAMES), max_size=4, unique=True)):
        kind = draw(st.sampled_from(["file", "file", "empty", "dir"] if depth < 2 else ["file", "empty"]))
        if kind == "file":
            entries[name] = draw(st.sampled_from([0, 0, 1, 10, 20000, 40000]))
        elif kind == "empty":
            entries[name] = {}
        else:
            entries[name] = draw(trees(depth=depth + 1))
    return entries


@st.composite
def cases(draw, tier="quick"):
    c = {}
    c["kind"] = draw(st.sampled_from(["file", "file", "file", "dir", "dir", "text"]))
    if c["kind"] == "file":
        c["size"] = draw(st.one_of(st.sampled_from([0, 1, 16383, 16384, 16385, 32767, 32768, 32769]), st.integers(0, 200000)))
        c["fname"] = draw(st.sampled_from(NAMES))
        # the leftover `<name>.tmp` of an earlier, interrupted attempt into the same directory
        c["stale_tmp"] = draw(st.sampled_from([None, None, 0, 1, 5000, 70000]))
        # `wormhole receive -o NAME`
        c["outfile"] = draw(st.sampled_from([None, None, None, "wanted.bin", "out put", c["fname"]]))
        # the file changes under the sender after the offer was made: it grows by that many bytes, or (negative)
        # that many bytes in it are overwritten
        c["grow"] = draw(st.sampled_from([0, 0, 0, 0, 1, 500, 20000, -1, -300]))
    elif c["kind"] == "dir":
        c["tree"] = draw(trees())
        c["dname"] = draw(st.sampled_from(["d", "dir with space", "ünï-dir", ".hid"]))
        c["deep_recv"] = draw(st.integers(0, 7)) == 0
        if c["deep_recv"]:
            c["tree"] = dict(c["tree"])
            c["tree"]["x" * 200] = 3          # fits below the sender's directory, not below the receiver's
    else:
        c["text"] = draw(st.one_of(st.text(alphabet=st.characters(blacklist_categories=("Cs",)), min_size=1, max_size=40),
                                   st.sampled_from(ODD_TEXT)))
    c["code"] = draw(st.sampled_from(["set", "alloc"]))
    c["listen"] = draw(st.sampled_from([[True, True], [True, False], [False, True], [False, False]]))
    c["relay"] = draw(st.booleans()) or c["listen"] == [False, False]
    c["fault"] = draw(st.sampled_from(["none", "none", "cut", "flip", "replay", "replay", "ack-cut", "ack-wrong", "ack-empty",
                                       "ack-null", "ack-nohash"]))
    c["fault_at"] = draw(st.one_of(st.integers(0, 200), st.integers(0, 40000), st.integers(0, 220000)))
    if c["kind"] == "file":
        c["fault_at"] %= (c["size"] + 60)          # inside (or just past) the ciphertext stream of this payload
    elif c["kind"] == "dir":
        c["fault_at"] %= 4000
        if not c["tree"] and draw(st.integers(0, 4)) > 0:
            c["tree"] = {"a": 3}
    if c.get("grow"):
        # one fault dimension at a time: with an acknowledgement that was stripped of its hash the sender cannot
        # notice that the receiver kept less than it read, and no clause of the statement covers that combination
        c["fault"] = "none"
    n = draw(st.integers(0, 200))
    c["tape"] = draw(st.binary(min_size=n, max_size=n))
    return c


def strategy(tier):
    return cases(tier)


def fs_tree(root):
    out = {}
    for d, ds, fs in os.walk(root):
        for n in ds:
            out[os.path.relpath(os.path.join(d, n), root)] = "dir"
        for n in fs:
            with open(os.path.join(d, n), "rb") as fh:
                out[os.path.relpath(os.path.join(d, n), root)] = hashlib.sha256(fh.read()).hexdigest()
    return out


def build(root, entries, salt=0):
    os.makedirs(root, exist_ok=True)
    n = 0
    for name, v in entries.items():
        p = os.path.join(root, name)
        if isinstance(v, dict):
            n += 1 + build(p, v, salt + 1)
        else:
            with open(p, "wb") as f:
                f.write(bytes(((k * 31 + salt + len(name)) % 256) for k in range(min(v, 997))) * (v // 997 + 1) if v else b"")
                f.truncate(v)
            n += 1
    return n


_CFG = {}


def cfg(which):
    import copy
    if which not in _CFG:
        from wormhole.test.common import config
        _CFG[which] = config(which)
    return copy.copy(_CFG[which])


def unwrap(p):
    return getattr(p, "_wrappedProtocol", p)


def far_protocol(t):
    """protocol at the far end of t's connection, looking through the transit relay"""
    p = unwrap(t.peer.protocol)
    if getattr(t.peer.owner, "name", "") == "relay":
        buddy = getattr(p, "_buddy", None)
        bt = getattr(getattr(buddy, "_client", None), "transport", None) if buddy is not None else None
        far = getattr(bt, "peer", None)
        return unwrap(far.protocol) if far is not None else None
    return p


def run_case(c):
    from wormhole.cli import cmd_send, cmd_receive
    from wormhole import transit
    from twisted.python import failure
    res = CaseResult()
    scratch = os.path.join(VERIF, "scratch")
    os.makedirs(scratch, exist_ok=True)
    base = tempfile.mkdtemp(prefix="c04-", dir=scratch)
    tape = Tape(c["tape"])
    W = World(b"c04" + bytes(c["tape"][:16]) + json.dumps([c["kind"], c.get("size"), c["fault"], c["fault_at"]]).encode())
    try:
        sd = os.path.join(base, "s")
        rd = os.path.join(base, "r")
        os.mkdir(sd)
        os.mkdir(rd)
        if c.get("deep_recv"):
            # the receiver works in a directory whose own path is close to PATH_MAX: members that were fine for the
            # sender cannot be created here (the receiver has to fail, not to skip them)
            while len(rd) + 241 <= 3900:
                rd = os.path.join(rd, "d" * 240)
            if len(rd) + 2 <= 3900:
                rd = os.path.join(rd, "e" * (3900 - len(rd) - 1))
            os.makedirs(rd)
        sa, ra = cfg("send"), cfg("receive")
        relay_url = W.start_relay() if c.get("relay") else ""
        for a, d in ((sa, sd), (ra, rd)):
            a.relay_url = "ws://sim:4000/v1"
            a.transit_helper = relay_url
            a.cwd = d
            a.stdout = io.StringIO()
            a.stderr = io.StringIO()
            a.hide_progress = True
        ra.accept_file = True
        sa.listen, ra.listen = c["listen"]
        nentries = 1
        kind = c["kind"]
        if kind == "file":
            size = c["size"]
            with open(os.path.join(sd, c["fname"]), "wb") as f:
                f.write((bytes((k * 7 + 3) % 256 for k in range(251)) * (size // 251 + 1))[:size])
            sa.what = c["fname"]
            if c.get("outfile"):
                ra.output_file = c["outfile"]
            if c.get("stale_tmp") is not None:
                with open(os.path.join(rd, c["fname"] + ".tmp"), "wb") as f:
                    f.write(b"\xee" * c["stale_tmp"])
        elif kind == "dir":
            nentries = build(os.path.join(sd, c["dname"]), c["tree"])
            sa.what = c["dname"]
        else:
            sa.text = c["text"]
        if c["code"] == "set":
            sa.code = "1-abc"
            ra.code = "1-abc"
        out = {}
        ns = NodeReactor(W, "S", "10.0.0.1")
        nr = NodeReactor(W, "R", "10.0.0.2")
        W.clients_nodes = (ns, nr)
        from wormhole.cli import cli as cli_mod
        dispatch = getattr(cli_mod, "_dispatch_command", None)

        def run_cmd(fn, args_, node):
            # "reports success" is what the `wormhole` command does with the outcome: cli.go() runs the command through
            # _dispatch_command(), whose Deferred decides the exit status (SystemExit(1) on the errors it knows)
            if dispatch is None:
                return fn(args_, reactor=node)
            return dispatch(node, args_, lambda: fn(args_, reactor=node))
        ds = run_cmd(cmd_send.send, sa, ns)
        ds.addBoth(lambda r: out.__setitem__("s", r))
        started_r = [False]

        def start_receiver():
            started_r[0] = True
            if c["code"] == "alloc":
                # the receiver is told the code the sender printed
                txt = sa.stderr.getvalue() + sa.stdout.getvalue()
                import re
                m = re.search(r"wormhole receive (\S+)", txt) or re.search(r"code is: (\S+)", txt)
                ra.code = m.group(1)
            dr = run_cmd(cmd_receive.receive, ra, nr)
            dr.addBoth(lambda r: out.__setitem__("r", r))
        if c["code"] == "set":
            start_receiver()
        fault = c["fault"] if kind != "text" else "none"
        # what the sender read = what it handed to its transit connection, record by record
        sent_h = hashlib.sha256()
        sent_n = [0]
        orig_send_record = transit.Connection.send_record

        def tap_send_record(self_, record):
            if getattr(self_.transport, "owner", None) is ns and self_.state == "records":
                sent_h.update(record)
                sent_n[0] += len(record)
            return orig_send_record(self_, record)
        transit.Connection.send_record = tap_send_record
        grown = [False]
        carried = collections.Counter()
        faulted = [None]
        ack_patched = [False]
        replay_patched = [False]
        n = 0
        hang = False
        while n < 30000:
            n += 1
            if not started_r[0] and ("code is:" in sa.stderr.getvalue() or "wormhole receive" in sa.stderr.getvalue()):
                start_receiver()
            # ---- ack faults: wrap the receiver connection's send_record once it exists
            if fault.startswith("ack-") and fault != "ack-cut" and not ack_patched[0]:
                for l in W.net.links:
                    for t in (l.a, l.b):
                        p = unwrap(t.protocol)
                        if t.owner is nr and isinstance(p, transit.Connection) and p.state == "records":
                            orig = p.send_record

                            def patched(rec, orig=orig):
                                try:
                                    d = json.loads(rec.decode("utf-8"))
                                except Exception:
                                    return orig(rec)
                                if isinstance(d, dict) and d.get("ack") == "ok" and "sha256" in d:
                                    if fault == "ack-wrong":
                                        d["sha256"] = ("0" if d["sha256"][0] != "0" else "1") + d["sha256"][1:]
                                    elif fault == "ack-empty":
                                        d["sha256"] = ""
                                    elif fault == "ack-null":
                                        d["sha256"] = None
                                    elif fault == "ack-nohash":
                                        del d["sha256"]
                                    faulted[0] = fault
                                    return orig(json.dumps(d).encode("utf-8"))
                                return orig(rec)
                            p.send_record = patched
                            ack_patched[0] = True
            if fault == "replay" and not replay_patched[0]:
                for l in W.net.links:
                    for t in (l.a, l.b):
                        p = unwrap(t.protocol)
                        if t.owner is ns and isinstance(p, transit.Connection) and p.state == "records":
                            orig = p.send_record
                            frames = []

                            def patched_s(rec, orig=orig, t=t, frames=frames):
                                before_len = len(t.outq)
                                r_ = orig(rec)
                                fr = bytes(t.outq[before_len:])
                                frames.append(fr)
                                k = len(frames) - 1
                                # a party on the path replaces record k by a byte-exact copy of record k-1
                                if faulted[0] is None and k >= 1 and len(frames[k - 1]) == len(fr) and \
                                        frames[k - 1] != fr and k >= 1 + (c["fault_at"] % 3):
                                    t.outq[before_len:] = frames[k - 1]
                                    faulted[0] = "replay"
                                return r_
                            p.send_record = patched_s
                            replay_patched[0] = True
            if kind == "file" and c.get("grow") and not grown[0] and started_r[0] and \
                    ("Sending" in sa.stderr.getvalue() or "Sending" in sa.stdout.getvalue()):
                # the offer has been made (the sender has announced what it sends); the file now changes
                grown[0] = True
                g = c["grow"]
                with open(os.path.join(sd, c["fname"]), "r+b") as f:
                    if g > 0:
                        f.seek(0, 2)
                        f.write(b"\xd7" * g)
                    elif size > 0:
                        f.seek(max(0, size // 2 - 1))
                        f.write(b"\xd8" * min(-g, size - max(0, size // 2 - 1)))
            ev = W.enabled()
            if not ev:
                nt = W.next_timer()
                if nt is None or ("s" in out and "r" in out):
                    break
                if nt - W.clock.seconds() > 300:
                    hang = True
                    break
                W.clock.advance(nt - W.clock.seconds())
                continue
            e = ev[tape.below(len(ev))] if not tape.exhausted() else ev[n % len(ev)]
            arg = W.arg_for(e, tape) if e[0] == "mb.s2c" else None
            if e[0] == "net.deliver":
                t = e[1]
                arg = tape.choice([1, 100, 5000, None, None, None]) if not tape.exhausted() else None
                k = len(t.outq) if arg is None else min(arg, len(t.outq))
                ps, pr = unwrap(t.protocol), far_protocol(t)
                both_records = getattr(ps, "state", None) == "records" and getattr(pr, "state", None) == "records" \
                    and isinstance(ps, transit.Connection)
                if both_records and faulted[0] is None:
                    if fault in ("cut", "flip") and t.owner is ns and carried[t] + k > c["fault_at"]:
                        off = max(0, c["fault_at"] - carried[t])
                        faulted[0] = fault
                        if fault == "flip":
                            t.outq[off] ^= 0x20
                        else:
                            if off:
                                t.deliver(off)
                            t.link.break_()
                            continue
                    if fault == "ack-cut" and t.owner is nr and len(t.outq) > 0:
                        # the receiver wrote something on the selected link: that is the acknowledgement
                        faulted[0] = fault
                        t.link.break_()
                        continue
                if both_records:
                    carried[t] += k
            try:
                W.do(e, arg)
            except Exception as ex:
                res.violate("escape", "exception escaped event %s: %r" % (e[0], ex), input_class="escaped:%s" % type(ex).__name__,
                            exc=type(ex).__name__)
                break
        S, R = out.get("s", "PENDING"), out.get("r", "PENDING")
        s_ok = S is None
        r_ok = R is None
        src = fs_tree(sd)
        if kind == "file" and grown[0]:
            # the reference is what the sender actually read and sent
            src = {c["fname"]: sent_h.hexdigest()}
            res.notes["file_changed_after_offer"] += 1
        if kind == "file" and c.get("outfile"):
            src = {c["outfile"]: v for v in src.values()}
        dst = fs_tree(rd)
        final = {k: v for k, v in dst.items() if not (k.endswith(".tmp") and k not in src)}
        info = "kind=%s %s fault=%s@%d applied=%r sender=%s receiver=%s" % (
            kind, c.get("size", c.get("tree", ""))if kind != "text" else repr(c["text"])[:40], c["fault"], c["fault_at"],
            faulted[0], _short(S), _short(R))
        undecodable = any(0xDC80 <= ord(ch) <= 0xDCFF for ch in json.dumps(c.get("tree") or c.get("fname") or "", ensure_ascii=False))
        if faulted[0] is None and undecodable:
            # names that are not valid UTF-8: the pinned sender refuses such a tree (UnicodeEncodeError), which
            # satisfies the statement; not part of the anti-vacuity ratio
            res.notes["undecodable_name_cases:%s" % ("both-ok" if s_ok and r_ok else "refused")] += 1
        elif faulted[0] is None and c.get("deep_recv"):
            res.notes["deep_receiver_cases:%s" % ("both-ok" if s_ok and r_ok else "failed")] += 1
        elif faulted[0] is None and grown[0]:
            res.notes["changed_file_cases:%s" % ("both-ok" if s_ok and r_ok else "failed")] += 1
        elif faulted[0] is None:
            # anti-vacuity only (the statement makes no liveness claim): counted, judged per run in health()
            res.notes["unfaulted_cases"] += 1
            if s_ok and r_ok:
                res.notes["unfaulted_both_ok"] += 1
            elif kind == "dir" and not c["tree"]:
                res.notes["unfaulted_failed:entirely-empty-directory"] += 1
            else:
                res.notes["unfaulted_failed:%s" % kind] += 1
        if s_ok and r_ok:
            if kind == "text":
                printed = ra.stdout.getvalue()
                printed = printed[:-1] if printed.endswith("\n") else printed
                okk = False
                for q in ("'", '"', "'''", '"""'):
                    try:
                        if ast.literal_eval(q + printed + q) == c["text"]:
                            okk = True
                    except Exception:
                        pass
                if not okk:
                    res.violate("exact", "text %r was printed as %r" % (c["text"], printed), input_class="text-mismatch")
            elif final != src:
                diff = sorted(set(src.items()) ^ set(final.items()))[:4]
                res.violate("exact", "both sides report success but the received tree differs: %r; %s" % (diff, info),
                            input_class="not-byte-exact:%s" % ("missing-empty-dir" if any(v == "dir" for _, v in diff) else "content"))
        if faulted[0] in ("cut", "flip", "replay"):
            if s_ok or r_ok:
                res.violate("nofalse", "data stream fault but success was reported (sender ok=%s receiver ok=%s); %s" % (
                    s_ok, r_ok, info), input_class="success-despite-data-fault")
            if final:
                res.violate("nofalse", "data stream fault but a final destination exists: %r; %s" % (sorted(final)[:3], info),
                            input_class="final-file-after-data-fault")
        if faulted[0] in ("ack-cut", "ack-wrong", "ack-empty", "ack-null") and s_ok:
            res.violate("nofalse", "the acknowledgement was %s but the sender reported success; %s" % (faulted[0], info),
                        input_class="sender-success-despite-%s" % faulted[0])
        if faulted[0] == "ack-nohash" and not s_ok and S != "PENDING":
            res.notes["sender_failed_without_hash_in_ack"] += 1
        if S == "PENDING" or R == "PENDING":
            res.notes["pending_at_budget"] += 1
        big = (kind == "file" and c["size"] > 16384) or (kind == "dir" and nentries >= 2)
        res.nontrivial = big or faulted[0] is not None
        res.features = dict(kind=kind, fault=c["fault"], applied=faulted[0] or "-", code=c["code"],
                            listen="%d%d" % tuple(c["listen"]), relay=bool(c.get("relay")), big=big, s_ok=s_ok, r_ok=r_ok,
                            stale_tmp=c.get("stale_tmp") is not None, outfile=bool(c.get("outfile")),
                            changed=bool(grown[0]), deep=bool(c.get("deep_recv")))
        res.trace = ",".join(W.trace[:200])
        res.steps = W.steps
        res.sample = dict(case={k: v for k, v in c.items() if k != "tape"}, sender=_short(S), receiver=_short(R),
                          fault_applied=faulted[0], entries=len(src))
    finally:
        try:
            transit.Connection.send_record = orig_send_record
        except Exception:
            pass
        W.close()
        shutil.rmtree(base, ignore_errors=True)
    return res


def _short(x):
    from twisted.python import failure
    if x is None:
        return "ok"
    if x == "PENDING":
        return "pending"
    if isinstance(x, failure.Failure):
        return "Failure(%s: %s)" % (type(x.value).__name__, str(x.value)[:60])
    return repr(x)[:60]


def health(counters, coverage):
    # (sending an entirely empty directory fails on the pinned tree - observation in DESIGN 9.5 - and is not part
    # of the ratio)
    n = counters.get("unfaulted_cases", 0) - counters.get("unfaulted_failed:entirely-empty-directory", 0)
    ok = counters.get("unfaulted_both_ok", 0)
    if n >= 20 and ok < 0.8 * n:
        return ("only %d of %d unfaulted transfers succeeded on both sides: the driver (or the tree) cannot complete "
                "ordinary transfers, so the success-implies-exact oracle would be vacuous" % (ok, n))
    return None
