# C08 - close() completes once, with the right verdict, and frees server resources.
import json, unicodedata
from hypothesis import strategies as st
from runner import CaseResult
import mbworld
from props import common
from wormhole.errors import (LonelyError, WrongPasswordError, ServerError, WelcomeError,
                             ServerConnectionError, WormholeError)
CASE_WALL_S = 12
INF = 10 ** 9

ID = "C08"
TIERS = {"quick": dict(examples=2500), "thorough": dict(examples=80000)}
RULE = ("Scenario = code method x peer present/absent x matching/wrong code x server `error` injection x welcome "
        "error x refused first connection x 0-4 connection losses; close() issued on one or both sides at a "
        "tape-chosen step (or inside a delegate callback, or right after a chosen event), optionally twice; both "
        "API styles. Oracle after stabilisation: exactly one closed notification per side and nothing after it; "
        "verdict = that of the first trigger among {close(): happy iff a valid peer message was seen else Lonely; "
        "undecryptable peer message: WrongPassword; server error: ServerError; welcome error: WelcomeError} using "
        "[earliest,latest] trigger times computed from what the harness delivered; server database: for every "
        "nameplate the client claimed and every mailbox it opened (ids taken from its own commands) the claim is "
        "released and the mailbox closed with the verdict's mood; service stopped, connection gone. Non-trivial = "
        "trigger issued while Nameplate/Mailbox were not in their idle-connected/claimed-open states, or while "
        "messages were in flight, or with a loss after it. Distinct = (features incl. N/M state at trigger, trace).")
RULE += (' Added later: WebSocket CLOSING window, outages (consecutive failed reconnection attempts), raw UTF-8 server JSON with non-ASCII welcome texts.')
ASSUMPTIONS = ["simulated WebSocket layer incl. autobahn's keep-draining-the-chunk behaviour after stopService",
               "real mailbox server; resources the client was never told about (lost `allocated`/`claimed` replies) "
               "are tallied as unknown-resource, not demanded"]

MOODS = {"happy": "happy", "LonelyError": "lonely", "WrongPasswordError": "scary", "ServerError": "errory",
         "WelcomeError": "unwelcome"}


@st.composite
def cases(draw, tier="quick"):
    P = {}
    P["mode"] = draw(st.sampled_from(["delegate", "delegate", "deferred"]))
    shape = draw(st.sampled_from(["pair", "pair", "pair", "solo", "wrong", "error", "unwelcome", "refuse", "third"]))
    P["shape"] = shape
    cm = draw(st.sampled_from([["set", "set"], ["alloc", "fromA"], ["set", "input"], ["alloc", "input"],
                               ["input", "set"]]))
    if shape == "solo":
        cm = [draw(st.sampled_from(["set", "alloc", "input"])), "none"]
        if cm[0] == "input":
            cm = ["input", "none"]
    P["codemode"] = cm
    if shape == "wrong":
        P["codes"] = ["7-purple-sausages", "7-purple-sausagez"]
        if cm[0] == "alloc":
            P["code_suffix"] = [None, "x"]
    payload = st.binary(max_size=12)
    # (now and then a message of a few kilobytes, or around a power of two)
    payload = st.one_of(payload, payload, payload, st.sampled_from([2008, 2009, 2048, 4096, 5000, 16384]).map(lambda n: b"\xa7" * n))
    P["sends"] = [draw(st.lists(payload, max_size=3)), draw(st.lists(payload, max_size=3))]
    if shape == "solo":
        P["sends"][1] = []
    P["drops"] = draw(st.sampled_from([0, 0, 1, 2, 4]))
    if shape == "error":
        P["inject_error"] = draw(st.integers(0, 1))
    if shape == "unwelcome":
        if draw(st.booleans()):
            P["welcome_error"] = draw(st.sampled_from(["go away", "geh weg \u2013 geschlo\u00dfen \u2603"]))
        else:
            # the server starts refusing clients later: only re-connections see the error welcome
            P["welcome_error_late"] = [draw(st.integers(2, 4)), "go away"]
            P["drops"] = max(P["drops"], 2)
    if shape == "third":
        P["third"] = draw(st.sampled_from(["before", "after"]))
        P["codemode"] = draw(st.sampled_from([["set", "set"], ["set", "input"]]))
    if shape == "refuse":
        r = draw(st.integers(0, 1))
        P["refuse"] = [1 if r == 0 else 0, 1 if r == 1 else 0]
    closes = []
    for side in range(2):
        if draw(st.integers(0, 2)) > 0:
            closes.append([side, draw(st.sampled_from([None, None, None, "halfopen", "welcome", "code", "key", "verifier",
                                                       "versions", "msg"]))])
    P["closes"] = closes
    P["close_twice"] = draw(st.integers(0, 5)) == 0
    if P["mode"] == "delegate" and draw(st.integers(0, 3)) == 0:
        P["reenter"] = [draw(st.integers(0, 1)), draw(st.sampled_from(["welcome", "code", "key", "verifier",
                                                                      "versions", "msg"])), "close"]
    P["gets"] = draw(st.sampled_from(["early", "early", "after"]))
    P["get_after_closed"] = True
    P["hs_fail"] = draw(st.sampled_from([[0, 0], [0, 0], [1, 0], [0, 1], [2, 1]]))
    P["hs_slow"] = draw(st.sampled_from([[False, False], [False, False], [True, False], [True, True]]))
    P["hs_fail_first"] = draw(st.sampled_from([[False, False], [False, False], [False, False], [True, False], [False, True]]))
    P["get_in_close_cb"] = draw(st.booleans())
    for c_ in closes:
        if c_[1] == "halfopen":
            P["hs_slow"] = list(P["hs_slow"])
            P["hs_slow"][c_[0]] = "only"
    n = draw(st.integers(0, 220))
    P["closing_drops"] = draw(st.booleans())   # graceful server closes pass through the WebSocket CLOSING state
    P["raw_utf8"] = draw(st.booleans())          # the server does not \u-escape non-ASCII text in its JSON
    # outages: a budget of reconnection attempts that fail at the TCP level, several in a row
    P["re_refuse"] = draw(st.sampled_from([[0, 0], [0, 0], [3, 0], [0, 7], [12, 12]]))
    P["tape"] = draw(st.binary(min_size=n, max_size=n))
    return P


def strategy(tier):
    return cases(tier)


def _same_code(P):
    a, b = P.get("codes", ["x", "x"])
    sfx = P.get("code_suffix") or [None, None]
    if sfx[0] or sfx[1]:
        return False
    return unicodedata.normalize("NFC", a) == unicodedata.normalize("NFC", b)


def triggers_for(rec, P, i, until_step):
    """[(kind, earliest, latest)] for side i, considering only things at or before until_step"""
    out = []
    my_side = rec.ws[i]._boss._side
    if rec.close_called[i] is not None and rec.close_called[i] <= until_step:
        out.append(("close", rec.close_called[i], rec.close_called[i]))
    t_pake = t_data = None
    for (j, n, msg, step) in rec.delivered:
        if j != i or step > until_step:
            continue
        t = msg.get("type")
        if t == "error":
            out.append(("error", step, step))
        elif t == "welcome" and "error" in (msg.get("welcome") or {}):
            out.append(("unwelcome", step, step))
        elif t == "message" and msg.get("side") != my_side:
            if msg.get("phase") == "pake":
                t_pake = step if t_pake is None else t_pake
            else:
                t_data = step if t_data is None else t_data
    code_steps = [e[2] for e in rec.evs[i] if e[0] == "code"]
    if t_pake is not None and t_data is not None:
        lo = max(t_pake, t_data)
        hi = max(lo, code_steps[0]) if code_steps else INF
        out.append(("peerdata", lo, hi))
    return out


def check_verdict(rec, P, i, res):
    v = rec.verdict[i]
    vname = mbworld.verdict_name(v)
    if P["mode"] == "delegate":
        cl = [e for e in rec.evs[i] if e[0] == "closed"]
        until = cl[0][2] if cl else INF
    else:
        until = INF
    trig = triggers_for(rec, P, i, until)
    same = _same_code(P) and P["appids"][0] == P["appids"][1] if "appids" in P else _same_code(P)
    if P.get("refuse", [0, 0])[i] or (P.get("hs_fail_first", [0, 0])[i] and rec.world.services[i].hs_failed and
                                      rec.world.services[i].nconn == 0):
        # initial connection failure: not one of the C08 verdict clauses; measured only
        res.notes["verdict_after_refused_connection:" + vname] += 1
        return vname
    if not trig:
        res.violate("verdict", "side %d closed (%s) without any trigger" % (i, vname),
                    input_class="closed-without-trigger")
        return vname
    allowed = set()
    why = []
    pd_all = [t for t in trig if t[0] == "peerdata"]
    if same:
        trig = [t for t in trig if t[0] != "peerdata"]   # valid peer data does not close anything
    for (k, lo, hi) in trig:
        others_latest = [h for (k2, l2, h) in trig if (k2, l2, h) != (k, lo, hi)]
        if others_latest and lo > min(others_latest):
            continue     # some other trigger certainly came first
        if k == "error":
            allowed.add("ServerError")
        elif k == "unwelcome":
            allowed.add("WelcomeError")
        elif k == "peerdata":
            if not same:
                allowed.add("WrongPasswordError")
            # matching codes: valid peer data is not a closing trigger
        elif k == "close":
            if not same:
                # a wrong-code peer never makes us happy; if its data had certainly been processed
                # before close() the peerdata trigger above precedes
                allowed.add("LonelyError")
            else:
                seen_verifier = any(e[0] == "verifier" and e[2] <= lo for e in rec.evs[i])
                pd = pd_all
                if P["mode"] == "delegate":
                    allowed.add("happy" if seen_verifier else "LonelyError")
                else:
                    if seen_verifier:
                        allowed.add("happy")
                    elif not pd or pd[0][1] > lo:
                        allowed.add("LonelyError")
                    else:
                        allowed.update(["happy", "LonelyError"])
        why.append((k, lo, hi))
    if vname not in allowed:
        res.violate("verdict", "side %d: verdict %s, model allows %s; triggers %r; events %r" % (
            i, vname, sorted(allowed), trig, [(k, s) for k, _, s in rec.evs[i]]),
            input_class="wrong-verdict:%s-instead-of-%s" % (vname, "/".join(sorted(allowed))))
    return vname


def check_resources(rec, P, i, res, vname):
    W = rec.world
    name = "c%d" % i
    side = rec.ws[i]._boss._side
    svc = W.services[i]
    if svc.started or (svc.conn is not None and svc.conn.alive):
        res.violate("resources", "side %d: service still started/connected after closed" % i,
                    input_class="connection-left-after-closed")
    sent = [c for (n_, k_, c) in W.cmdlog if n_ == name]
    processed = []
    for (n_, k_, c) in W.cmdlog:
        pass
    # what the server actually processed, per connection
    claimed_names = {c["nameplate"] for c in sent if c.get("type") == "claim"}
    opened_ids = {c["mailbox"] for c in sent if c.get("type") == "open"}
    for r in W.db.execute("SELECT ns.claimed AS claimed, n.name AS name FROM nameplate_sides ns JOIN nameplates n "
                          "ON n.id=ns.nameplates_id WHERE ns.side=? AND ns.claimed=1", (side,)).fetchall():
        if r["name"] in claimed_names:
            res.violate("resources", "side %d: nameplate %r still claimed after closed (%s)" % (i, r["name"], vname),
                        input_class="nameplate-still-claimed")
        else:
            res.notes["unknown_resource_nameplate"] += 1
    for r in W.db.execute("SELECT * FROM mailbox_sides WHERE side=? AND opened=1", (side,)).fetchall():
        if r["mailbox_id"] in opened_ids:
            res.violate("resources", "side %d: mailbox %r still open after closed (%s)" % (i, r["mailbox_id"], vname),
                        input_class="mailbox-still-open")
        else:
            res.notes["unknown_resource_mailbox"] += 1
    want = MOODS.get(vname)
    for mid in sorted(opened_ids):
        closes = [c for c in sent if c.get("type") == "close" and c.get("mailbox") == mid]
        if not closes:
            res.violate("resources", "side %d: opened mailbox %s but never sent close" % (i, mid),
                        input_class="mailbox-close-never-sent")
        elif want is not None and any(c.get("mood") != want for c in closes):
            res.violate("resources", "side %d: close mood %r, verdict %s" % (i, [c.get("mood") for c in closes], vname),
                        input_class="mood-mismatch")


def _hang_reason(rec, i):
    """a close() that never completes because the real server answered this client's `close`
    command with an `error` (it does so for a mailbox it considers crowded) instead of `closed`"""
    for (name, n, msg) in rec.world.srvlog:
        if name == "c%d" % i and msg.get("type") == "error" and (msg.get("orig") or {}).get("type") == "close":
            return ("close-hangs:server-answered-close-with-error",
                    "; server answered `close` with error %r" % msg.get("error"))
    return (None, "")


def run_case(P):
    res = CaseResult()
    rec = mbworld.run(P)
    res.steps = rec.world.steps
    if not all(s == "quiescent" for s in rec.settle):
        res.inconclusive = True
        res.features = dict(inconclusive=True)
        return res
    nt = False
    for i in range(2):
        if P["mode"] == "delegate":
            cl = [k for k in rec.kinds(i) if k == "closed"]
            if len(cl) != 1:
                res.violate("once", "side %d got %d closed notifications; events %r%s" % (
                    i, len(cl), rec.kinds(i), _hang_reason(rec, i)[1]),
                    input_class=(_hang_reason(rec, i)[0] if not cl else None) or "closed-count-%d" % len(cl))
                continue
            if rec.kinds(i)[-1] != "closed":
                res.violate("once", "side %d: events after closed: %r" % (i, rec.kinds(i)),
                            input_class="event-after-closed")
        else:
            if len(rec.close_results[i]) != len(rec.close_d[i]) or not rec.close_results[i]:
                res.violate("once", "side %d: %d close() Deferreds, %d fired%s" % (
                    i, len(rec.close_d[i]), len(rec.close_results[i]), _hang_reason(rec, i)[1]),
                    input_class=_hang_reason(rec, i)[0] or "close-deferred-pending")
                continue
            names = {mbworld.verdict_name(getattr(r, "value", r)) for r in rec.close_results[i]}
            if len(names) != 1:
                res.violate("once", "side %d: close() Deferreds disagree: %r" % (i, names),
                            input_class="close-results-disagree")
        if P["mode"] == "deferred":
            # nothing is delivered after closed: a get_*() obtained after the closed notification must fail
            for what, entries in rec.gets[i].items():
                for en in entries:
                    if en["after_closed"] and en["result"] is not None and en["result"][0] == "ok":
                        res.violate("once", "side %d: get_%s() obtained after the closed notification returned %r" % (
                            i, what, en["result"][1]), input_class="delivered-after-closed:%s" % what)
        v = rec.verdict[i]
        if not (v == "happy" or isinstance(v, WormholeError)):
            res.violate("verdict", "side %d: undocumented verdict %r" % (i, v), input_class="undocumented-verdict",
                        exc=type(v).__name__)
            continue
        vname = check_verdict(rec, P, i, res)
        if isinstance(v, ServerConnectionError):
            continue
        check_resources(rec, P, i, res, vname)
        st_ = rec.states_at_close[i] or {}
        if st_.get("N") not in ("S3B", "S5B", "S0B", None) or st_.get("M") not in ("S2B", "S0B", None) or \
                any(j == i for (j, *_r) in [(d[0],) for d in rec.drop_states]):
            nt = True
    res.nontrivial = nt or bool(P.get("reenter")) or P["shape"] in ("error", "unwelcome", "wrong")
    s0 = rec.states_at_close[0] or {}
    s1 = rec.states_at_close[1] or {}
    res.features = dict(mode=P["mode"], shape=P["shape"], N0=s0.get("N"), M0=s0.get("M"), N1=s1.get("N"),
                        M1=s1.get("M"), v0=mbworld.verdict_name(rec.verdict[0]),
                        v1=mbworld.verdict_name(rec.verdict[1]), drops=common.bucket(rec.drops, [0, 1, 2]))
    for i in range(2):
        s = rec.states_at_close[i] or {}
        res.notes["close@N=%s,M=%s,T=%s" % (s.get("N"), s.get("M"), s.get("T"))] += 1
    res.trace = mbworld.abstract_trace(rec)
    res.sample = dict(params=P, verdicts=[mbworld.verdict_name(v) for v in rec.verdict],
                      states_at_close=rec.states_at_close, events=[rec.kinds(0), rec.kinds(1)])
    return res
