# C05 - `wormhole receive` writes only where it said it would, and never clobbers.
import os, io, sys, json, shutil, hashlib, zipfile, tempfile, stat
from unittest import mock
from hypothesis import strategies as st
from runner import CaseResult, VERIF
from props import common
from twisted.internet import defer
CASE_WALL_S = 30

ID = "C05"
TIERS = {"quick": dict(examples=4000), "thorough": dict(examples=150000)}
RULE = ("Offer kind file/directory with the offered name from a grammar of hostile names (absolute paths incl. "
        "paths of real decoy files, '..' chains, 'a/../../b', 'x/..', trailing '/', '.', empty, '~/.ssh/x', "
        "backslashes, control characters, Unicode, 255+ chars) and benign ones; for directories a zip built by the "
        "harness with member names from the same grammar (+ duplicates, directory entries, members colliding with "
        "files, zero mode bits), sizes honest or lying. Configuration: --output-file unset / fresh name / nested "
        "'sub/x' / existing file / existing directory / absolute path in the sandbox; --accept-file on, or off "
        "with a generated interactive answer; pre-existing object at the would-be destination none / file / "
        "empty dir / non-empty dir / named pipe / dangling symlink; decoy files everywhere else in a sandbox base/outer/cwd incl. base/, "
        "base/outer/ and a pre-existing <dest>.tmp. Driver: the real cmd_receive.receive(args, reactor) - the whole "
        "Receiver - on the real filesystem; only the wormhole object and the TransitReceiver class are replaced by "
        "fakes that script the sender (transit message, offer, data through a record pipe). Oracle: "
        "snapshot (path -> kind, content hash) of the whole sandbox before/after against a reference destination "
        "computed from the statement: every created/modified/removed path is dest, dest+'.tmp' or (directory "
        "mode) beneath dest; no --output-file and dest exists => failure and nothing changed; an existing file is "
        "replaced only if --output-file names it or the existing directory containing it; an existing directory "
        "survives with its contents; success => dest exists. Non-trivial = hostile name/member, or a "
        "pre-existing object at/near the destination. Distinct = (features, canonical case).")
RULE += (' Added later: archive members that escape below a top-level entry used by an earlier member (sub/../../<sibling>).')
ASSUMPTIONS = ["real filesystem under /verif/scratch, removed after each case", "permissions/mtimes are not compared",
               "symlinks pre-planted by the local user are out of scope", "the check runs as root (mode-0 members do "
               "not block later extraction)"]

BENIGN = ["report.pdf", "a", "photo.jpeg", "data", "x.tmp", "dir1", "ünï.txt", "with space.txt", "-dash", ".hidden"]
HOSTILE = ["..", ".", "", "/", "../x", "../../x", "a/../../b", "x/..", "x/.", "name/", "sub/evil", "/etc/passwd_verif",
           "~/.ssh/x", "a\\b", "..\\x", "new\nline", "tab\there", "\x1b[2Jclear", "a" * 260, "%DECOY_BASE%",
           "%DECOY_OUTER%", "%DECOY_CWD%", "%CWD%", "%CWD%/..", "//double", "./x", "x/./y", "...", ".. ", " .."]


@st.composite
def cases(draw, tier="quick"):
    c = {}
    c["kind"] = draw(st.sampled_from(["file", "file", "directory"]))
    c["name"] = draw(st.one_of(st.sampled_from(BENIGN), st.sampled_from(HOSTILE), st.sampled_from(HOSTILE),
                               st.text(alphabet=st.characters(blacklist_characters="\x00", blacklist_categories=("Cs",)),
                                       max_size=12)))
    c["output"] = draw(st.sampled_from([None, None, "fresh.out", "sub/x", "EXISTING_FILE", "EXISTING_DIR",
                                        "ABS_FRESH", "ABS_EXISTING_FILE", "ABS_EXISTING_DIR", "..", "."]))
    c["accept"] = draw(st.booleans())
    c["answer"] = draw(st.sampled_from(["y", "", "Y", "yes", "n", "no", "x"]))
    # a long-running receiver: a second receive() with the same configuration object, for a file of that name
    c["again"] = draw(st.sampled_from([None, None, None, "a.txt", "b.bin"]))
    c["pre"] = draw(st.sampled_from(["none", "none", "file", "emptydir", "dir", "fifo", "dangling", "linkfile"]))
    c["pre_tmp"] = draw(st.sampled_from([False, False, True]))
    c["size"] = draw(st.sampled_from([0, 1, 100, 5000]))
    c["lie"] = draw(st.sampled_from([0, 0, 0, -1, 7]))
    # file offers: another process creates a DIRECTORY named like the destination while the data is arriving
    # (after every existence check the receiver made, before its final rename)
    c["race_dir"] = draw(st.integers(0, 5)) == 0
    # the transit connection dies after that fraction of the data (None: it does not)
    c["conn_lost"] = draw(st.sampled_from([None, None, None, 0.0, 0.4, 0.99]))
    if c["kind"] == "directory":
        member = st.one_of(st.sampled_from(BENIGN), st.sampled_from(HOSTILE),
                           st.sampled_from(HOSTILE).map(lambda n: n.rstrip("/") + "/"),      # hostile DIRECTORY entries
                           st.sampled_from(["sub/inner.txt", "sub/", "sub", "a/b/c", "a", "a/b", "dir1/", "x.tmp", "%SIBLING%", "%SIBLING%",
                                            # escapes that start below a top-level entry an earlier member has used
                                            "sub/../%SIBLING%", "a/b/../../%SIBLING%", "sub/../../%DECOY_CWD_NAME%", "a/../%SIBLING%"]))
        c["members"] = draw(st.lists(st.tuples(member, st.sampled_from([0, 0o644, 0o755, 0o40755, 0o100600])).map(list),
                                     max_size=5))
        if draw(st.integers(0, 5)) == 0:
            # a harmless member below a top-level entry, followed by one that escapes through that same entry
            pos = draw(st.integers(0, len(c["members"])))
            top = draw(st.sampled_from(["sub", "a", "dir1"]))
            esc = draw(st.sampled_from(["%s/../%%SIBLING%%", "%s/x/../../%%SIBLING%%", "%s/../../%%DECOY_CWD_NAME%%"])) % top
            c["members"][pos:pos] = [[top + "/inner.txt", 0o644], [esc, draw(st.sampled_from([0o666, 0o777, 0o600]))]]
        if draw(st.integers(0, 5)) == 0:
            # an archive entry flagged as a symbolic link (its body is the link target) followed by a member "below" it
            pos = draw(st.integers(0, len(c["members"])))
            c["members"][pos:pos] = [["lnk", 0o120777], ["lnk/notes.txt", 0o644]]
    return c


def strategy(tier):
    return cases(tier)


def snapshot(base):
    out = {}
    for root, dirs, files in os.walk(base, followlinks=False):
        for d in dirs:
            p = os.path.join(root, d)
            out[os.path.relpath(p, base)] = ("link", os.readlink(p)) if os.path.islink(p) else ("dir", None)
        for f in files:
            p = os.path.join(root, f)
            if os.path.islink(p):
                out[os.path.relpath(p, base)] = ("link", os.readlink(p))
            elif not stat.S_ISREG(os.lstat(p).st_mode):
                out[os.path.relpath(p, base)] = ("special", stat.S_IFMT(os.lstat(p).st_mode))
            else:
                try:
                    with open(p, "rb") as fh:
                        out[os.path.relpath(p, base)] = ("file", hashlib.sha256(fh.read()).hexdigest()[:16],
                                                         stat.S_IMODE(os.lstat(p).st_mode))
                except OSError as e:
                    out[os.path.relpath(p, base)] = ("file", "unreadable:%s" % e.errno)
    return out


class FakeWormhole:
    """the public wormhole API as `wormhole receive` uses it; the peer's messages are scripted"""
    def __init__(self, inbound=()):
        self.sent = []
        self.inbound = list(inbound)
        self.closed = 0

    def send_message(self, b):
        self.sent.append(b)

    def derive_key(self, purpose, length):
        return b"k" * length

    def get_welcome(self):
        return defer.succeed({})

    def set_code(self, code):
        self.code = code

    def get_code(self):
        return defer.succeed(getattr(self, "code", "1-abc"))

    def get_unverified_key(self):
        return defer.succeed(b"k" * 32)

    def get_verifier(self):
        return defer.succeed(b"v" * 32)

    def get_versions(self):
        return defer.succeed({})

    def get_message(self):
        if self.inbound:
            return defer.succeed(self.inbound.pop(0))
        return defer.Deferred()      # the sender says nothing more

    def close(self):
        self.closed += 1
        return defer.succeed("happy")

    def debug_set_trace(self, *a, **kw):
        pass


class FakePipe:
    def __init__(self, data):
        self.data = data
        self.records = []
        self.closed = False

    def describe(self):
        return "fake"

    def writeToFile(self, f, expected, progress=None, hasher=None):
        d = self.data[:expected] if expected is not None else self.data
        if getattr(self, "cut", None) is not None:
            from wormhole.transit import ConnectionClosed
            part = d[:int(len(d) * self.cut)]
            f.write(part)
            if hasher:
                hasher(part)
            self.was_cut = True
            return defer.fail(ConnectionClosed())
        f.write(d)
        if getattr(self, "race_path", None):
            try:
                os.mkdir(self.race_path)
                self.raced = True
            except OSError:
                pass
        if hasher:
            hasher(d)
        if progress:
            progress(len(d))
        return defer.succeed(len(d))

    def send_record(self, r):
        self.records.append(r)

    def close(self):
        self.closed = True


class FakeTransit:
    TRANSIT_KEY_LENGTH = 32

    def __init__(self, pipe):
        self.pipe = pipe

    def set_transit_key(self, key):
        pass

    def add_connection_hints(self, hints):
        pass

    def get_connection_abilities(self):
        return [{"type": "direct-tcp-v1"}]

    def get_connection_hints(self):
        return defer.succeed([])

    def connect(self):
        return defer.succeed(self.pipe)


_ARGS = [None]


def base_args():
    if _ARGS[0] is None:
        from wormhole.test.common import config
        _ARGS[0] = config("receive")
    import copy
    return copy.copy(_ARGS[0])


def subst(name, base, cwd):
    return (name.replace("%DECOY_CWD_NAME%", "decoy_cwd.txt").replace("%DECOY_BASE%", os.path.join(base, "decoy_base.txt"))
            .replace("%DECOY_OUTER%", os.path.join(base, "outer", "decoy_outer.txt"))
            .replace("%DECOY_CWD%", os.path.join(cwd, "decoy_cwd.txt"))
            .replace("%CWD%", cwd).replace("/etc/passwd_verif", os.path.join(base, "etc_passwd_verif")))


def proper_child(parent, path):
    parent = os.path.abspath(parent)
    path = os.path.abspath(path)
    return path != parent and path.startswith(parent + os.sep) and os.path.dirname(path) == parent


def run_case(c):
    from wormhole.cli import cmd_receive
    res = CaseResult()
    scratch = os.path.join(VERIF, "scratch")
    os.makedirs(scratch, exist_ok=True)
    base = tempfile.mkdtemp(prefix="c05-", dir=scratch)
    try:
        _run(c, res, base, cmd_receive)
    finally:
        for root, dirs, files in os.walk(base):
            for d in dirs:
                try:
                    os.chmod(os.path.join(root, d), 0o700)
                except OSError:
                    pass
        shutil.rmtree(base, ignore_errors=True)
    return res


def _run(c, res, base, cmd_receive):
    cwd = os.path.join(base, "outer", "cwd")
    os.makedirs(os.path.join(cwd, "sub0"))
    os.makedirs(os.path.join(cwd, "existing_dir", "keep"))

    def put(p, content):
        os.makedirs(os.path.dirname(p), exist_ok=True)
        with open(p, "wb") as f:
            f.write(content)
    put(os.path.join(base, "decoy_base.txt"), b"decoy base")
    put(os.path.join(base, "outer", "decoy_outer.txt"), b"decoy outer")
    put(os.path.join(cwd, "decoy_cwd.txt"), b"decoy cwd")
    put(os.path.join(cwd, "sub0", "inner.txt"), b"inner")
    put(os.path.join(cwd, "existing_file"), b"existing file content")
    put(os.path.join(cwd, "existing_dir", "keep", "k.txt"), b"keep me")
    put(os.path.join(cwd, "existing_dir", "top.txt"), b"top")
    name = subst(c["name"], base, cwd)
    # ---- reference destination, from the statement
    out = c["output"]
    out_path = None
    if out is not None:
        rel = {"EXISTING_FILE": "existing_file", "EXISTING_DIR": "existing_dir",
               "ABS_FRESH": os.path.join(cwd, "abs_fresh.out"), "ABS_EXISTING_FILE": os.path.join(cwd, "existing_file"),
               "ABS_EXISTING_DIR": os.path.join(cwd, "existing_dir")}.get(out, out)
        out_path = rel
        target = os.path.abspath(os.path.join(cwd, rel))
    bn = os.path.basename(name)
    pre = c["pre"]
    pre_made = "none"

    def make_pre(path):
        """plant the generated pre-existing object at `path` (if nothing is there yet)"""
        if not path.startswith(base + os.sep) or os.path.lexists(path) or not os.path.isdir(os.path.dirname(path)) \
                or len(os.path.basename(path)) >= 200:
            return "none"
        try:
            if pre == "file":
                put(path, b"pre-existing file")
                return "file"
            if pre == "emptydir":
                os.makedirs(path)
                return "emptydir"
            if pre == "dir":
                os.makedirs(os.path.join(path, "old"))
                put(os.path.join(path, "old", "o.txt"), b"old content")
                return "dir"
            if pre == "fifo":
                os.mkfifo(path)
                return "fifo"
            if pre == "linkfile":
                # a symbolic link to a regular file that lives elsewhere: replacing the destination may remove the
                # link, never the file it points to
                os.makedirs(os.path.join(base, "elsewhere"), exist_ok=True)
                put(os.path.join(base, "elsewhere", "precious.txt"), b"precious content, not named by anybody")
                os.symlink(os.path.join(base, "elsewhere", "precious.txt"), path)
                return "linkfile"
            if pre == "dangling":
                # a stale symlink whose target does not exist (its parent does, outside the working directory)
                os.makedirs(os.path.join(base, "elsewhere"), exist_ok=True)
                os.symlink(os.path.join(base, "elsewhere", "target"), path)
                return "dangling"
        except OSError:
            pass
        return "none"
    # a fresh --output-file target may itself be the pre-existing object
    if out is not None and not os.path.lexists(target):
        make_pre(target)
    must_fail = False
    if out is None:
        dest = os.path.abspath(os.path.join(cwd, bn))
        if not proper_child(cwd, dest):
            must_fail = True
    else:
        if os.path.isdir(target):
            dest = os.path.abspath(os.path.join(target, bn))
            if not proper_child(target, dest):
                must_fail = True
        else:
            dest = target
    named_by_output = out is not None
    dest_in_sandbox = dest.startswith(base + os.sep)
    if not must_fail and not os.path.lexists(dest):
        pre_made = make_pre(dest)
    elif os.path.lexists(dest):
        pre_made = "dir" if os.path.isdir(dest) else "file" if os.path.isfile(dest) else "special"
    sibling = dest + "2"
    if dest_in_sandbox and not must_fail and not os.path.lexists(sibling) and os.path.isdir(os.path.dirname(sibling)) \
            and len(os.path.basename(sibling)) < 200:
        try:
            put(sibling, b"sibling whose name starts with the destination's name")
            os.chmod(sibling, 0o600)
        except OSError:
            pass
    tmp_pre = False
    if c["pre_tmp"] and dest_in_sandbox and not os.path.lexists(dest + ".tmp") and os.path.isdir(os.path.dirname(dest)) \
            and len(os.path.basename(dest)) < 200 and not must_fail:
        try:
            put(dest + ".tmp", b"unrelated tmp file of the user")
            tmp_pre = True
        except OSError:
            pass
    # ---- offer + payload
    if c["kind"] == "file":
        data = bytes((7 * k + 3) % 256 for k in range(c["size"]))
        offer = {"file": {"filename": name, "filesize": len(data) + (c["lie"] if c["lie"] > 0 else 0)}}
        if c["lie"] < 0:
            data = data[:-1] if data else data
            offer["file"]["filesize"] = len(data) + 1
    else:
        bio = io.BytesIO()
        nfiles = nbytes = 0
        with zipfile.ZipFile(bio, "w", zipfile.ZIP_DEFLATED) as zf:
            import warnings
            with warnings.catch_warnings():
                warnings.simplefilter("ignore")
                for mname, mode in c["members"]:
                    mname = subst(mname, base, cwd).replace("%SIBLING%", "../" + os.path.basename(dest) + "2")
                    zi = zipfile.ZipInfo(mname)
                    zi.external_attr = (mode & 0xFFFF) << 16
                    body = b"" if mname.endswith("/") else ("content of %r" % mname).encode()
                    if (mode & 0o170000) == 0o120000:
                        body = b"../.."          # where the "link" points: two levels above the destination
                    try:
                        zf.writestr(zi, body)
                        nfiles += 1
                        nbytes += len(body)
                    except Exception:
                        pass
        data = bio.getvalue()
        offer = {"directory": {"mode": "zipfile/deflated", "dirname": name, "zipsize": len(data) + (c["lie"] if c["lie"] > 0 else 0),
                               "numbytes": nbytes, "numfiles": nfiles}}
        if c["lie"] < 0:
            data = data[:-1]
            offer["directory"]["zipsize"] = len(data) + 1
    before = snapshot(base)
    # ---- run the real receiver code
    args = base_args()
    args.cwd = cwd
    args.output_file = out_path
    args.accept_file = c["accept"]
    args.stdout = io.StringIO()
    args.stderr = io.StringIO()
    args.hide_progress = True
    from twisted.internet.task import Clock
    import json as _json
    # the public entry point receive(args, reactor): only the wormhole object (create) and the TransitReceiver
    # class are replaced, by fakes that script the sender: a transit message, then the offer, then the data
    args.code = "1-abc"
    w = FakeWormhole([_json.dumps({"transit": {"abilities-v1": [{"type": "direct-tcp-v1"}], "hints-v1": []}}).encode(),
                      _json.dumps({"offer": offer}).encode()])
    pipe = FakePipe(data)
    if c.get("race_dir") and c["kind"] == "file" and not os.path.lexists(dest):
        pipe.race_path = dest
    if c.get("conn_lost") is not None:
        pipe.cut = c["conn_lost"]
    outcome = []
    answers = [c["answer"]]
    with mock.patch("builtins.input", lambda prompt="": answers[0]), \
            mock.patch.object(sys, "stderr", io.StringIO()), \
            mock.patch.object(cmd_receive, "create", lambda *a, **kw: w), \
            mock.patch.object(cmd_receive, "TransitReceiver", lambda *a, **kw: FakeTransit(pipe)):
        try:
            d = cmd_receive.receive(args, reactor=Clock())
            d.addCallbacks(lambda x: outcome.append(("ok", x)), lambda f: outcome.append(("err", f.value)))
        except Exception as ex:
            outcome.append(("err", ex))
    if outcome and outcome[0][0] == "err" and isinstance(outcome[0][1], (AttributeError, TypeError, NameError)):
        # the fakes no longer fit the code (harness problem), or the receiver itself is broken: never silently "a failed transfer"
        raise RuntimeError("C05 driver: receive() failed with %r" % (outcome[0][1],))
    if not outcome:
        outcome.append(("pending", None))
    ok = outcome[0][0] == "ok"
    after = snapshot(base)
    # ---- a second transfer in the same process with the same configuration object (a long-running receiver):
    # its destination follows from the configuration as the user gave it, not from anything the first one left behind
    second = None
    if c.get("again") and c["kind"] == "file" and not must_fail:
        name2 = "second-" + c["again"]
        if out is None:
            dest2 = os.path.abspath(os.path.join(cwd, name2))
        elif os.path.isdir(os.path.abspath(os.path.join(cwd, out_path))) or (pre_made in ("emptydir", "dir") and os.path.isdir(target)):
            dest2 = os.path.abspath(os.path.join(cwd, out_path, name2))
        else:
            dest2 = os.path.abspath(os.path.join(cwd, out_path))
        data2 = b"second transfer " * 3
        w2 = FakeWormhole([_json.dumps({"transit": {"abilities-v1": [{"type": "direct-tcp-v1"}], "hints-v1": []}}).encode(),
                           _json.dumps({"offer": {"file": {"filename": name2, "filesize": len(data2)}}}).encode()])
        pipe2 = FakePipe(data2)
        args.stdout = io.StringIO()
        args.stderr = io.StringIO()
        out2 = []
        with mock.patch("builtins.input", lambda prompt="": "y"), \
                mock.patch.object(sys, "stderr", io.StringIO()), \
                mock.patch.object(cmd_receive, "create", lambda *a, **kw: w2), \
                mock.patch.object(cmd_receive, "TransitReceiver", lambda *a, **kw: FakeTransit(pipe2)):
            try:
                d2 = cmd_receive.receive(args, reactor=Clock())
                d2.addCallbacks(lambda x: out2.append(("ok", x)), lambda f: out2.append(("err", f.value)))
            except Exception as ex:
                out2.append(("err", ex))
        after2 = snapshot(base)
        rel2 = os.path.relpath(dest2, base)
        changed2 = sorted(p_ for p_ in set(after) | set(after2) if after.get(p_) != after2.get(p_))
        second = (out2[0][0] if out2 else "pending", rel2, changed2)
        for p_ in changed2:
            if p_ not in (rel2, rel2 + ".tmp"):
                res.violate("outside", "second transfer with the same configuration (--output-file %r): offer %r should go to %r "
                            "but %r changed; first transfer: %s" % (out, name2, rel2, p_, outcome[0][0]),
                            input_class="second-transfer-wrote-elsewhere")
                break
    # ---- oracle
    created = sorted(p for p in after if p not in before)
    removed = sorted(p for p in before if p not in after)
    modified = sorted(p for p in after if p in before and after[p] != before[p])
    rel_dest = os.path.relpath(dest, base)
    rel_tmp = rel_dest + ".tmp"

    def allowed(p):
        if p == rel_dest:
            return True
        if p == rel_tmp and not tmp_pre:
            return True
        if c["kind"] == "directory" and (p + os.sep).startswith(rel_dest + os.sep):
            return True
        return False
    interactive_no = (not c["accept"]) and not (c["answer"].lower().startswith("y") or c["answer"] == "")
    info = "offer %s name %r, --output-file %r, accept_file %s/%r, pre-existing %s, dest %r, outcome %r" % (
        c["kind"], c["name"], out, c["accept"], c["answer"], pre_made, rel_dest, outcome[0][0] + ":" + type(outcome[0][1]).__name__)
    for p in created + modified + removed:
        if not allowed(p):
            what = "created" if p in created else "modified" if p in modified else "removed"
            if p == rel_tmp and tmp_pre:
                # (a file offer uses <dest>.tmp as its scratch file - the known finding; a directory offer has no
                # business with that path at all)
                res.violate("clobber", "pre-existing %r (not named by --output-file) was %s; %s" % (p, what, info),
                            input_class="preexisting-dest.tmp-clobbered" if c["kind"] == "file" else
                            "preexisting-dest.tmp-touched-by-directory-offer")
            else:
                res.violate("outside", "%s %r which is neither the destination nor beneath it; %s" % (what, p, info),
                            input_class="wrote-outside-destination:%s" % _name_class(c))
            break
    if must_fail and ok:
        res.violate("outside", "offer basename %r cannot name a child of the working directory/target, but the "
                    "transfer succeeded; %s" % (bn, info), input_class="hostile-basename-accepted")
    if out is None and pre_made not in ("none", "dangling"):
        if ok or any(allowed(p) and p != rel_tmp for p in created + modified + removed):
            res.violate("clobber", "no --output-file and the destination exists, but it was touched / the transfer "
                        "succeeded; %s" % info, input_class="existing-destination-overwritten-without-output-file")
    if pre_made in ("emptydir", "dir"):
        if not os.path.isdir(dest) or (pre_made == "dir" and after.get(os.path.join(rel_dest, "old", "o.txt")) !=
                                       before.get(os.path.join(rel_dest, "old", "o.txt"))):
            res.violate("clobber", "pre-existing directory at the destination was deleted or lost content; %s" % info,
                        input_class="existing-directory-deleted")
    for p in ("outer/cwd/existing_dir/keep/k.txt", "outer/cwd/existing_dir/top.txt"):
        if after.get(p) != before.get(p) and not allowed(p):
            res.violate("clobber", "content of an existing directory changed: %r; %s" % (p, info),
                        input_class="existing-directory-content-changed")
            break
    if pre_made in ("file", "fifo") and rel_dest in before and after.get(rel_dest) != before.get(rel_dest) and not named_by_output:
        res.violate("clobber", "existing file replaced although --output-file did not name it; %s" % info,
                    input_class="existing-file-replaced-without-output-file")
    if ok and not os.path.lexists(dest) and (c["kind"] == "file" or c.get("members")):
        res.violate("success", "transfer reported success but the destination does not exist; %s" % info,
                    input_class="success-without-destination")
    if interactive_no and (ok or created or modified or removed):
        res.violate("clobber", "user answered %r but the transfer went on (%s/%s/%s); %s" % (
            c["answer"], created, modified, removed, info), input_class="declined-transfer-touched-filesystem")
    hostile = c["name"] in HOSTILE or any(m in HOSTILE for m, _ in c.get("members", [])) or \
        any(ch in c["name"] for ch in "/\\") or c["name"] in ("", ".", "..")
    res.nontrivial = hostile or pre_made != "none" or tmp_pre
    res.features = dict(kind=c["kind"], name=_name_class(c), out=str(out), accept=c["accept"], pre=pre_made,
                        tmp=tmp_pre, ok=ok, must_fail=must_fail)
    res.notes["outcome:" + outcome[0][0] + ":" + type(outcome[0][1]).__name__] += 1
    res.trace = json.dumps(c, sort_keys=True, default=str)[:400]
    res.sample = dict(case=c, dest=rel_dest, outcome=outcome[0][0], error=repr(outcome[0][1])[:80],
                      created=created[:6], modified=modified[:6], removed=removed[:6])


def _name_class(c):
    n = c["name"]
    if n in BENIGN:
        return "benign"
    if n.startswith("%") or n.startswith("/"):
        return "absolute"
    if ".." in n:
        return "dotdot"
    if n in ("", ".", "name/", "x/."):
        return "empty-or-dot"
    if "/" in n or "\\" in n:
        return "separator"
    if len(n) > 200:
        return "long"
    return "other"
