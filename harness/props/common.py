def short(x, n=6):
    """compact repr of a list of byte strings"""
    out = []
    for v in list(x)[:n]:
        if isinstance(v, (bytes, bytearray)):
            out.append("%d:%s" % (len(v), bytes(v[:8]).hex()))
        else:
            out.append(repr(v)[:40])
    if len(x) > n:
        out.append("..+%d" % (len(x) - n))
    return "[" + ", ".join(out) + "]"


def bucket(n, edges):
    """label of the bucket n falls in; edges ascending, e.g. [0,1,2,4] -> '0','1','2-3','4+'"""
    for j, e in enumerate(edges):
        nxt = edges[j + 1] if j + 1 < len(edges) else None
        if nxt is None:
            return "%d+" % e
        if e <= n < nxt:
            return str(e) if nxt == e + 1 else "%d-%d" % (e, nxt - 1)
    return str(n)
