# C20 - peer connection hints are untrusted: never a crash, only valid hints dialled.
import json, math
from hypothesis import strategies as st
from runner import CaseResult
from props import common
CASE_WALL_S = 20

ID = "C20"
TIERS = {"quick": dict(examples=12000, parts=dict(parse=9000, transit=2000, dilation=800)),
         "thorough": dict(examples=360000, parts=dict(parse=300000, transit=50000, dilation=12000))}
PARTS = ["parse", "transit", "dilation"]
RULE = ("Lists of 0-6 JSON objects in hint position: valid direct/tor/relay hints, field-wise mutations of them "
        "(drop a field, replace it by every JSON type, nest, huge/negative/float/bool ports, non-numeric / list / "
        "dict / NaN priorities, unknown and non-string types, relay without `hints`, `hints` of every JSON type, "
        "sub-hints of every JSON type) and random recursive JSON dicts. Three drivers: (parse) _hints.parse_hint / "
        "parse_tcp_v1_hint + encode/parse round trip of generated hint objects; (transit) real TransitSender/"
        "TransitReceiver.add_connection_hints + connect() on the simulated reactor, clock advanced past all relay "
        "delays; (dilation) a real dilating peer sends the list in a connection-hints message to a real victim "
        "wormhole that is CONNECTING, or the message is handed to Manager.received_dilation_message of a dilated pair "
        "the moment a Manager is seen in WANTING / CONNECTING / CONNECTED / FLUSHING / LONELY / ABANDONING / STOPPING "
        "(tape-driven losses noticed by one side first, close()). Oracle: no exception from any entry point, victim not closed/errored, and the set of "
        "(host,port) passed to connectTCP equals an independent reference filter (string hostname, int non-bool "
        "port, type direct-tcp-v1; relay sub-hints likewise). Non-trivial = >=1 malformed element next to >=1 "
        "valid one (or a malformed relay). Distinct = (features, canonical JSON of the list).")
ASSUMPTIONS = ["Tor is not configured, so tor-tcp-v1 hints must not be dialled", "simulated reactor records connectTCP",
               "non-object list elements are generated in a separate tallied class (the statement says JSON objects)"]

HOSTS = ["10.1.2.3", "example.com", "fe80::1", "", "a" * 70, "hé.example", "localhost", "1.2.3.4.", "x y"]
json_scalar = st.one_of(st.none(), st.booleans(), st.integers(-2 ** 66, 2 ** 66), st.integers(-3, 70000),
                        st.floats(allow_nan=True, allow_infinity=True), st.text(max_size=8),
                        st.sampled_from(["direct-tcp-v1", "tor-tcp-v1", "relay-v1", "hostname", "port"]))
json_value = st.recursive(json_scalar, lambda ch: st.one_of(st.lists(ch, max_size=3),
                                                            st.dictionaries(st.text(max_size=5), ch, max_size=3)),
                          max_leaves=6)
# (JSON numbers are unbounded: integers beyond the float range are valid priorities too)
priority = st.one_of(st.floats(-5, 5), st.integers(-2, 3), st.sampled_from([0.0, 0.0, 1.0]),
                     st.sampled_from([10 ** 400, -10 ** 400, 2 ** 1024, 2 ** 63, 1e308, -1e308, 5e-324]))


@st.composite
def valid_tcp(draw, types=("direct-tcp-v1", "direct-tcp-v1", "tor-tcp-v1")):
    h = {"type": draw(st.sampled_from(types)), "hostname": draw(st.sampled_from(HOSTS)),
         "port": draw(st.integers(1, 65535))}
    if draw(st.booleans()):
        h["priority"] = draw(priority)
    return h


@st.composite
def mutated_tcp(draw):
    h = draw(valid_tcp())
    for _ in range(draw(st.integers(1, 2))):
        field = draw(st.sampled_from(["type", "hostname", "port", "priority", "extra"]))
        how = draw(st.sampled_from(["drop", "value", "value", "special"]))
        if how == "drop":
            h.pop(field, None)
        elif how == "value":
            h[field] = draw(json_value)
        else:
            h[field] = draw(st.sampled_from([True, False, -1, 0, 65536, 2 ** 40, 80.0, "80", [80], {"p": 80}, None,
                                             float("nan"), [], {}, "direct-tcp-v1", ["direct-tcp-v1"], 1e308]))
    return h


@st.composite
def relay(draw):
    sub = st.one_of(valid_tcp(), valid_tcp(), mutated_tcp(), json_value)
    kind = draw(st.sampled_from(["ok", "ok", "nohints", "badhints", "mixed"]))
    r = {"type": "relay-v1"}
    if kind == "ok":
        r["hints"] = draw(st.lists(valid_tcp(), min_size=0, max_size=3))
    elif kind == "mixed":
        r["hints"] = draw(st.lists(sub, min_size=1, max_size=4))
    elif kind == "badhints":
        r["hints"] = draw(json_value)
    if draw(st.integers(0, 5)) == 0:
        r["extra"] = draw(json_value)
    return r


hint_obj = st.one_of(valid_tcp(), valid_tcp(), mutated_tcp(), mutated_tcp(), relay(), relay(),
                     st.dictionaries(st.text(max_size=6), json_value, max_size=4))


@st.composite
def hint_lists(draw, allow_nonobjects=True):
    hs = draw(st.lists(hint_obj, min_size=0, max_size=6))
    # related elements: a copy of a direct/tor entry with its type flipped, its priority changed, or unchanged,
    # placed before or after the original (the same address listed twice, by hand or by two interfaces)
    for _ in range(draw(st.sampled_from([0, 0, 1, 2]))):
        cands = [h for h in hs if isinstance(h, dict) and h.get("type") in ("direct-tcp-v1", "tor-tcp-v1")]
        if not cands:
            break
        src = cands[draw(st.integers(0, len(cands) - 1))]
        twin = dict(src)
        how = draw(st.sampled_from(["flip-type", "flip-type", "priority", "same"]))
        if how == "flip-type":
            twin["type"] = "tor-tcp-v1" if src.get("type") == "direct-tcp-v1" else "direct-tcp-v1"
        elif how == "priority":
            twin["priority"] = draw(priority)
        pos = hs.index(src)
        hs.insert(pos if draw(st.booleans()) else pos + 1, twin)
    nonobj = False
    if allow_nonobjects and draw(st.integers(0, 9)) == 0:
        hs.insert(draw(st.integers(0, len(hs))), draw(st.one_of(json_scalar, st.lists(json_scalar, max_size=2))))
        nonobj = True
    return dict(hints=hs, nonobj=nonobj)


@st.composite
def parse_cases(draw):
    c = draw(hint_lists())
    c["objs"] = draw(st.lists(st.tuples(st.sampled_from(["direct", "tor", "relay"]), st.sampled_from(HOSTS),
                                        st.integers(0, 65535), st.floats(-5, 5),
                                        st.lists(st.tuples(st.sampled_from(HOSTS), st.integers(0, 65535),
                                                           st.floats(-5, 5)).map(list), max_size=3)).map(list),
                              max_size=3))
    return c


@st.composite
def transit_cases(draw):
    c = draw(hint_lists())
    c["role"] = draw(st.sampled_from(["sender", "receiver"]))
    c["no_listen"] = draw(st.booleans())
    c["own_relay"] = draw(st.booleans())       # this side has a transit relay of its own configured
    return c


@st.composite
def dilation_cases(draw):
    c = draw(hint_lists(allow_nonobjects=False))
    n = draw(st.integers(0, 60))
    c["tape"] = draw(st.binary(min_size=n, max_size=n))
    if draw(st.booleans()):
        # the message arrives in a chosen Manager state instead of CONNECTING-with-nobody-listening
        c["dil_state"] = draw(st.sampled_from(["WANTING", "CONNECTING", "CONNECTED", "FLUSHING", "LONELY", "ABANDONING",
                                               "STOPPING"]))
        n = draw(st.integers(40, 300))
        c["tape"] = draw(st.binary(min_size=n, max_size=n))
    return c


def strategy(tier, part="parse"):
    return {"parse": parse_cases, "transit": transit_cases, "dilation": dilation_cases}[part]().map(
        lambda c, part=part: dict(c, part=part))


# ------------------------------------------------------------------ reference filter
def ref_tcp_ok(h):
    return isinstance(h, dict) and isinstance(h.get("type"), str) and h.get("type") == "direct-tcp-v1" and \
        isinstance(h.get("hostname"), str) and type(h.get("port")) is int


def ref_targets(hints):
    out = set()
    for h in hints:
        if not isinstance(h, dict):
            continue
        t = h.get("type")
        if not isinstance(t, str):
            continue
        if t == "direct-tcp-v1":
            if ref_tcp_ok(h):
                out.add((h["hostname"], h["port"]))
        elif t == "relay-v1":
            subs = h.get("hints")
            if isinstance(subs, list):
                for s in subs:
                    if ref_tcp_ok(s):
                        out.add((s["hostname"], s["port"]))
    return out


def classify(hints):
    """malformation classes present, for features and for the known-findings input class"""
    cls = set()
    nvalid = 0
    for h in hints:
        if not isinstance(h, dict):
            cls.add("nonobject")
            continue
        t = h.get("type")
        if not isinstance(t, str):
            cls.add("type:" + type(t).__name__)
        elif t == "relay-v1":
            subs = h.get("hints", "missing")
            if subs == "missing" and "hints" not in h:
                cls.add("relay:nohints")
            elif not isinstance(subs, list):
                cls.add("relay:hints=" + type(subs).__name__)
            else:
                for s_ in subs:
                    if not isinstance(s_, dict):
                        cls.add("relay:sub=" + type(s_).__name__)
                    elif ref_tcp_ok(s_):
                        nvalid += 1
                        if not isinstance(s_.get("priority", 0.0), (int, float)) or isinstance(s_.get("priority"), bool):
                            cls.add("relay:priority=" + type(s_.get("priority")).__name__)
                    else:
                        cls.add("relay:badsub")
        elif t in ("direct-tcp-v1", "tor-tcp-v1"):
            if ref_tcp_ok(h):
                nvalid += 1
                p = h.get("priority", 0.0)
                if not isinstance(p, (int, float)) or isinstance(p, bool):
                    cls.add("priority=" + type(p).__name__)
            elif t == "tor-tcp-v1":
                cls.add("tor")
            else:
                if not isinstance(h.get("hostname"), str):
                    cls.add("hostname=" + type(h.get("hostname")).__name__)
                if type(h.get("port")) is not int:
                    cls.add("port=" + type(h.get("port")).__name__)
        else:
            cls.add("unknowntype")
    return cls, nvalid


def _exc_frame(ex):
    import traceback
    best = None
    for fs in traceback.extract_tb(ex.__traceback__):
        if "/wormhole/" in fs.filename and "/test/" not in fs.filename:
            best = "%s:%s" % (fs.filename.split("/wormhole/")[-1], fs.name)
    return best


def _tor_pairs(hints):
    out = set()

    def visit(h):
        if isinstance(h, dict) and h.get("type") == "tor-tcp-v1" and isinstance(h.get("hostname"), str):
            try:
                out.add((h["hostname"], h.get("port")))
            except TypeError:
                pass
    for h in hints:
        visit(h)
        if isinstance(h, dict) and isinstance(h.get("hints"), list):
            for s_ in h["hints"]:
                visit(s_)
    return out


def _bad_hostname(h):
    from twisted.internet.endpoints import HostnameEndpoint
    from twisted.internet.abstract import isIPAddress, isIPv6Address
    if isIPAddress(h) or isIPv6Address(h):
        return False
    import warnings
    with warnings.catch_warnings():
        warnings.simplefilter("ignore")
        from simworld import NodeReactor
        class _W:
            net = None
        try:
            ep = HostnameEndpoint(_DummyReactor(), h, 1)
        except Exception:
            return True
    return bool(getattr(ep, "_badHostname", False))


class _DummyReactor:
    nameResolver = None
    def callLater(self, *a, **k):
        pass
    def seconds(self):
        return 0


def _canon(hints):
    try:
        return json.dumps(hints, sort_keys=True, default=str)[:600]
    except Exception:
        return repr(hints)[:600]


# ------------------------------------------------------------------ drivers
def run_parse(c, res):
    from wormhole import _hints
    for h in c["hints"]:
        if not isinstance(h, dict):
            res.notes["nonobject_elements_skipped"] += 1
            continue
        for fn in (_hints.parse_hint, _hints.parse_tcp_v1_hint):
            try:
                r = fn(h)
            except Exception as ex:
                cls, _ = classify([h])
                res.violate("no-raise", "%s(%s) raised %r" % (fn.__name__, _canon(h), ex),
                            input_class="%s:%s" % (fn.__name__, "+".join(sorted(cls)) or "valid"),
                            exc=type(ex).__name__, frame=_exc_frame(ex))
                continue
            if fn is _hints.parse_tcp_v1_hint:
                want = isinstance(h.get("type"), str) and h.get("type") in ("direct-tcp-v1", "tor-tcp-v1") and \
                    isinstance(h.get("hostname"), str) and type(h.get("port")) is int
                if (r is not None) != want:
                    cls, _ = classify([h])
                    res.violate("filter", "parse_tcp_v1_hint(%s) returned %r, reference says valid=%s" % (
                        _canon(h), r, want), input_class="parse-accepts:%s" % "+".join(sorted(cls)))
    # round trip of hint objects this side could produce
    for kind, host, port, prio, subs in c["objs"]:
        if kind == "direct":
            o = _hints.DirectTCPV1Hint(host, port, prio)
        elif kind == "tor":
            o = _hints.TorTCPV1Hint(host, port, prio)
        else:
            o = _hints.RelayV1Hint([_hints.DirectTCPV1Hint(h_, p_, pr_) for (h_, p_, pr_) in subs])
        try:
            wire = json.loads(json.dumps(_hints.encode_hint(o)))
            back = _hints.parse_hint(wire)
        except Exception as ex:
            res.violate("roundtrip", "encode/parse of %r raised %r" % (o, ex), input_class="roundtrip-raises",
                        exc=type(ex).__name__, frame=_exc_frame(ex))
            continue
        same = (back == o) if kind != "relay" else (isinstance(back, _hints.RelayV1Hint) and
                                                     list(back.hints) == list(o.hints))
        if not same:
            res.violate("roundtrip", "parse_hint(encode_hint(%r)) == %r" % (o, back), input_class="roundtrip-differs")


def run_transit(c, res):
    from simworld import World
    from wormhole import transit
    from wormhole.transit import TransitError
    from twisted.internet import defer
    W = World(b"c20" + _canon(c["hints"]).encode()[:64])
    try:
        node = W.node("victim")
        cls_ = transit.TransitSender if c["role"] == "sender" else transit.TransitReceiver
        own_relay = "tcp:ownrelay.example:4001" if c.get("own_relay") else None
        t = cls_(own_relay, no_listen=c["no_listen"], reactor=node)
        t.set_transit_key(b"k" * 32)
        pub0, pub1 = [], []
        t.get_connection_hints().addCallback(pub0.append)
        hints = [h for h in c["hints"] if isinstance(h, dict)]
        classes, nvalid = classify(hints)
        try:
            t.add_connection_hints(hints)
        except Exception as ex:
            res.violate("no-raise", "add_connection_hints(%s) raised %r" % (_canon(hints), ex),
                        input_class="add_connection_hints:%s" % "+".join(sorted(classes)),
                        exc=type(ex).__name__, frame=_exc_frame(ex))
            return
        if c["nonobj"]:
            res.notes["lists_with_nonobject_elements"] += 1
        # what this side publishes describes this side (its listener, its configured relay): it is the same
        # before and after the peer's hints were added
        try:
            t.get_connection_hints().addCallback(pub1.append)
        except Exception as ex:
            res.violate("no-raise", "get_connection_hints() raised %r after hints %s" % (ex, _canon(hints)),
                        input_class="get_connection_hints:%s" % "+".join(sorted(classes)), exc=type(ex).__name__)
            return
        if pub0 and pub1 and _canon(pub0[0]) != _canon(pub1[0]):
            res.violate("publish", "published hints changed after the peer's hints were added: before %s, after %s; peer "
                        "hints %s" % (_canon(pub0[0]), _canon(pub1[0]), _canon(hints)),
                        input_class="published-hints-depend-on-peer-hints")
        out = []
        try:
            d = t.connect()
            d.addBoth(out.append)
        except Exception as ex:
            res.violate("no-raise", "connect() raised %r after hints %s" % (ex, _canon(hints)),
                        input_class="connect:%s" % "+".join(sorted(classes)),
                        exc=type(ex).__name__, frame=_exc_frame(ex))
            return
        W.settle(max_steps=400, max_time=40.0)
        want = ref_targets(hints)
        if own_relay:
            want = want | {("ownrelay.example", 4001)}
        got = W.net.dial_targets("victim")
        if out:
            r = out[0]
            v = getattr(r, "value", r)
            # connect() may legitimately fail when every attempt failed (nothing listens in this
            # world) or there is no contender; it must not fail because hint handling raised
            from twisted.internet.error import ConnectError, DNSLookupError
            benign = isinstance(v, (TransitError, ConnectError, DNSLookupError, defer.CancelledError)) or \
                (isinstance(v, ValueError) and str(v).startswith("invalid hostname"))
            last = "transit.py"
            raised_in_wormhole = not benign
            if isinstance(v, Exception) and raised_in_wormhole and not isinstance(v, TransitError):
                res.violate("no-abort", "connect() failed with %r raised in %s; hints %s" % (v, last, _canon(hints)),
                            input_class="connect-fails:%s" % "+".join(sorted(classes)),
                            exc=type(v).__name__, frame=last.split("/wormhole/")[-1])
                return
        # a syntactically invalid host name is refused by Twisted's endpoint without a dial
        optional = {(h_, p_) for (h_, p_) in want if _bad_hostname(h_)}
        # observation, not asserted: hint objects are namedtuples, so a tor-tcp-v1 and a direct-tcp-v1
        # hint with equal (hostname, port, priority) compare equal and one of them can vanish in a set
        # (only relay sub-hints are kept in sets by Transit; top-level direct hints are a list and must all be dialled)
        tor_pairs = _tor_pairs([h for h in hints if isinstance(h, dict) and h.get("type") == "relay-v1"])
        top_level = ref_targets([h for h in hints if isinstance(h, dict) and h.get("type") != "relay-v1"])
        if (want & tor_pairs) - top_level:
            res.notes["direct_hint_shadowed_by_equal_tor_hint_possible"] += 1
        optional |= (want & tor_pairs) - top_level
        if not (got <= want and (want - got) <= optional):
            res.violate("filter", "dialled %r, reference filter gives %r; hints %s" % (
                sorted(got, key=repr), sorted(want, key=repr), _canon(hints)),
                input_class="dialled-differs:%s" % "+".join(sorted(classes)))
        for (exc, frame, msg) in W.error_summaries():
            if frame is not None or exc in ("TypeError", "KeyError", "AttributeError", "ValueError"):
                res.violate("no-raise", "logged %s at %s: %s" % (exc, frame, msg),
                            input_class="errlog:%s" % "+".join(sorted(classes)), exc=exc, frame=frame)
                break
        try:
            if not out:
                d.cancel()
        except Exception:
            pass
        W.settle(max_steps=200, max_time=1.0)
    finally:
        W.close()


def run_case(c):
    res = CaseResult()
    part = c.get("part", "parse")
    hints = c["hints"]
    classes, nvalid = classify(hints)
    if part == "parse":
        run_parse(c, res)
    elif part == "transit":
        run_transit(c, res)
    else:
        from props import c20_dilation
        c20_dilation.run(c, res)
    res.nontrivial = bool(classes - {"tor"}) and (nvalid >= 1 or any(k.startswith("relay") for k in classes))
    res.features = dict(part=part, classes=",".join(sorted(classes))[:80], nvalid=min(nvalid, 3),
                        state=str(c.get("dil_state")))
    res.trace = _canon(hints)
    res.sample = dict(part=part, hints=hints, reference_targets=sorted(ref_targets(hints), key=repr))
    return res
