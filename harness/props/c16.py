# C16 - the Leader replaces a silent peer connection and never drops a responsive one.
import json
from hypothesis import strategies as st
from runner import CaseResult
from props import common
import dilworld
from dilworld import unwrap
CASE_WALL_S = 60

ID = "C16"
TIERS = {"quick": dict(examples=1000), "thorough": dict(examples=25000)}
RULE = ("Two real dilated wormholes on the simulated clock with ping_interval P drawn from [0.05,120] s. Optionally "
        "the Leader sends bulk data (1-5 writes placed just before monitor expiries) over a Leader->Follower "
        "direction with per-burst delay and a 200-byte transport buffer, so its Outbound is paused across expiries "
        "(total round trip stays under 0.9P); optionally the link is lost at a generated instant in the first 5 "
        "intervals (also between a ping and its pong) and the replacement must be monitored and kept. The "
        "Follower->Leader direction of the link in use is: responsive with a generated per-burst delay d in "
        "[0,0.9P]; or silent from a generated instant (bytes black-holed, link stays up) chosen anywhere inside "
        "the first 6 intervals; optionally the link is killed and replaced before the behaviour starts; after a "
        "monitor-induced drop the peer becomes responsive again. Pings and pongs are observed through wrappers "
        "on the Leader's send_ping/handle_pong, drops through DilatedConnectionProtocol.disconnect. Oracle: "
        "silent => with t_a the send time of the last answered ping (connection time if none) the Leader "
        "disconnects that connection at t with t - t_a < 3P (+1e-9), a new generation starts and both sides are "
        "connected again once the peer answers, monitoring resumes (a ping is sent within P of the new "
        "connection) and the new responsive connection is not dropped for 4 intervals; responsive => no drop "
        "over 12 intervals; after close() no timer of the monitor remains scheduled. Non-trivial = silence "
        "begins away from a timer expiry, or a reconnect happens before/after monitoring. Distinct = (features, "
        "rounded timing signature).")
ASSUMPTIONS = ["simulated clock only", "float tolerance 1e-9", "the first ping of a connection is issued before "
               "Outbound has the connection and is never transmitted (measured on the pinned tree); the oracle is "
               "phrased on answered pings, so it does not depend on it"]


@st.composite
def cases(draw, tier="quick"):
    c = {}
    c["P"] = draw(st.one_of(st.sampled_from([0.05, 0.5, 1.0, 7.3, 30.0, 120.0]), st.floats(0.05, 120.0)))
    c["mode"] = draw(st.sampled_from(["responsive", "silent", "silent", "slow"]))
    c["silence_at"] = draw(st.floats(0.0, 6.0))          # in intervals after connection
    c["delay"] = draw(st.floats(0.0, 0.9))               # fraction of P
    c["prekill"] = draw(st.sampled_from([False, False, True]))
    c["second_round"] = draw(st.booleans())
    c["pre_silent"] = draw(st.sampled_from([0, 0, 0, 0, 0, 4, 5]))
    # the link in use is lost (by the network) at a generated instant, also between a ping and its pong
    c["kill_at"] = draw(st.one_of(st.none(), st.floats(0.0, 5.0))) if c["mode"] != "silent" else None
    # bulk data from the Leader over a slow Leader->Follower direction with a small transport buffer: the
    # Leader's Outbound is paused (back-pressure) while a burst is in flight, also across timer expiries
    if draw(st.booleans()):
        c["l2f_delay"] = draw(st.floats(0.0, 0.9 - c["delay"] if c["mode"] == "slow" else 0.9))
        c["bulk"] = [[draw(st.integers(1, 6)), draw(st.floats(0.0, 1.0)), draw(st.sampled_from([100, 300, 5000, 70000]))]
                     for _ in range(draw(st.integers(1, 5)))]
    return c


def strategy(tier):
    return cases(tier)


class Monitor:
    """wrappers on the Leader manager"""
    def __init__(self, case, L):
        self.case, self.L = case, L
        self.pings = {}
        self.answered = []       # (sent, answered_at)
        self.sent_times = []
        self.discs = []          # (time, connection)
        W = case.W
        osp = L.send_ping

        def sp(pid, cb=None):
            self.pings[pid] = W.clock.seconds()
            self.sent_times.append(W.clock.seconds())
            return osp(pid, cb)
        L.send_ping = sp
        ohp = L.handle_pong

        def hp(pid):
            if pid in self.pings:
                self.answered.append((self.pings[pid], W.clock.seconds()))
            return ohp(pid)
        L.handle_pong = hp
        self.wrap_connection()
        tt = getattr(L, "_traffic", None)
        self.paused_at_expiry = 0
        if tt is not None:
            def tr(old_state, input, new_state, tt=tt):
                tt._verif_state = new_state
                if input == "interval_elapsed" and getattr(L._outbound, "_paused", False):
                    self.paused_at_expiry += 1
            try:
                tt.set_trace(tr)
            except Exception:
                pass

    def wrap_connection(self):
        lp = self.L._connection
        if lp is None or getattr(lp, "_verif_wrapped", False):
            return
        lp._verif_wrapped = True
        od = lp.disconnect
        W = self.case.W

        def note(lp=lp):
            if not any(x is lp for _, x in self.discs):
                self.discs.append((W.clock.seconds(), lp))

        def dis(lp=lp, od=od):
            note()
            return od()
        lp.disconnect = dis
        # the same fact seen on the simulated network: the Leader's end of this link is closed locally
        tr = lp.transport
        olc = tr.loseConnection

        def lc(*a, **kw):
            if not (tr.lost or tr.broken or tr.closing):      # a link the harness killed is not a "drop"
                note()
            return olc(*a, **kw)
        tr.loseConnection = lc


def drive(case, until, hold=None, stop_when=None, on_step=None, rtt=None):
    """deliver everything promptly (FIFO); `hold(t)` may veto delivery from transport t; clock jumps to
    the next timer / release time; returns when the clock passes `until` or stop_when() is true"""
    W = case.W
    n = 0
    burst = 0
    if rtt is None:
        rtt = 0.02 * case.P["ping_interval"][0]
    last_t = W.clock.seconds()
    while W.clock.seconds() < until and n < 400000:
        n += 1
        if W.clock.seconds() != last_t:
            last_t = W.clock.seconds()
            burst = 0
        burst += 1
        if burst > 100:
            # the simulated network has zero latency; an exchange that never lets time pass (e.g. a
            # ping answered by a pong answered by a ping ...) is given a small round-trip time
            W.clock.advance(rtt)
            continue
        if stop_when is not None and stop_when():
            return "stopped"
        ev = W.enabled()
        wake = []
        nbytes = {}
        if hold is not None:
            keep = []
            for e in ev:
                if e[0] == "net.deliver":
                    w = hold(e[1])
                    if w is not None:
                        if w[0] == "at":
                            wake.append(w[1])
                            continue
                        nbytes[id(e[1])] = w[1]          # only the bytes that are due by now
                keep.append(e)
            ev = keep
        if ev:
            e = ev[0]
            try:
                W.do(e, len(e[1].s2c) if e[0] == "mb.s2c" else nbytes.get(id(e[1])) if e[0] == "net.deliver" else None)
            except Exception as ex:
                case.escaped.append((str(e[0]), ex, None))
            case.step += 1
            if on_step:
                on_step()
            continue
        nt = W.next_timer()
        cand = [x for x in [nt] + wake if x is not None]
        if not cand:
            return "idle"
        t = min(min(cand), until)
        W.clock.advance(max(0.0, t - W.clock.seconds()))
        if on_step:
            on_step()
    return "time"


def case_traffic_state(L):
    return getattr(getattr(L, "_traffic", None), "_verif_state", None) or "connected?"


def run_case(c):
    from wormhole._dilation.roles import LEADER
    res = CaseResult()
    P = float(c["P"])
    case = dilworld.DilCase(dict(ping_interval=[P, P], tape=b"", ops=[], kills=0, bufsize=200 if c.get("bulk") else 1 << 16))
    case.setup()
    W = case.W
    try:
        drive(case, W.clock.seconds() + min(P * 0.4, 1.5), stop_when=lambda: all(
            m is not None and m._connection for m in case.managers()))
        ms = case.managers()
        if not all(m is not None and m._connection for m in ms):
            res.inconclusive = True
            res.features = dict(setup="not-connected")
            return res
        li = case.leader_index()
        L, F = ms[li], ms[1 - li]
        mon = Monitor(case, L)
        reconnects = 0
        if c["prekill"]:
            # lose the first connection right away and let the pair reconnect: monitoring must resume
            for l in case.selected_links():
                l.break_()
            # monitoring stops when the connection is lost: once the Leader has noticed, no
            # interval timer of the monitor may remain scheduled until the next connection
            drive(case, W.clock.seconds() + min(P * 0.2, 0.5), stop_when=lambda: L._connection is None)
            if L._connection is None:
                stale = [dc for dc in W.clock.getDelayedCalls()
                         if "timer_expired" in getattr(dc.func, "__qualname__", "")]
                if stale:
                    res.violate("stop", "the Leader lost its connection but %d interval timer(s) of the traffic "
                                "monitor are still scheduled" % len(stale), input_class="monitor-timer-survives-loss")
            drive(case, W.clock.seconds() + min(P * 0.4, 1.5), stop_when=lambda: all(
                m._connection is not None and not m._connection.transport.lost and
                not m._connection.transport.broken for m in ms))
            if not all(m._connection for m in ms):
                res.inconclusive = True
                res.features = dict(setup="not-reconnected")
                return res
            reconnects += 1
            mon.wrap_connection()
        # an aged session: that many silent-peer episodes (peer black-holed, monitor drops the link, the pair
        # reconnects) happen before the scenario proper
        aged = 0
        for ep in range(c.get("pre_silent") or 0):
            ftp = F._connection.transport if F._connection is not None else None
            if ftp is None:
                break
            nd = len(mon.discs)
            drive(case, W.clock.seconds() + 3.5 * P, hold=lambda t, ftp=ftp: ("at", 10 ** 12) if t is ftp else None,
                  stop_when=lambda: len(mon.discs) > nd)
            if len(mon.discs) == nd:
                res.violate("silent", "aged session: silent-peer episode %d was not ended by the monitor within 3.5 "
                            "intervals" % (ep + 1), input_class="silent-connection-never-dropped")
                res.nontrivial = True
                res.features = dict(setup="aged-episode-failed")
                return res
            dead = mon.discs[-1][1]

            def back():
                return all(m._connection is not None and not m._connection.transport.lost and
                           m._connection is not dead for m in ms)
            drive(case, W.clock.seconds() + max(3.0, 0.5 * P), stop_when=back)
            if not back():
                res.violate("silent", "aged session: after silent-peer episode %d the sides did not reconnect (Manager "
                            "states %r)" % (ep + 1, [case.state_name(m) for m in ms]),
                            input_class="no-new-generation-after-drop")
                res.nontrivial = True
                res.features = dict(setup="aged-episode-failed")
                return res
            aged += 1
            reconnects += 1
            mon.wrap_connection()
        res.notes["aged_silent_episodes"] += aged
        bulk = c.get("bulk") or []
        sub_end = [None]
        if bulk:
            case._do_intent(["listen", 1 - li, "p"])
            case._do_intent(["open", li, "p"])
            drive(case, W.clock.seconds() + min(P * 0.1, 0.5), stop_when=lambda: case.opens[0][2] is not None and
                  case.opens[0][2].transport is not None)
            if case.opens[0][2] is None:
                res.inconclusive = True
                res.features = dict(setup="subchannel-not-open")
                return res
            sub_end[0] = case.opens[0][2]
        t_conn = W.clock.seconds()
        n_disc0 = len(mon.discs)
        ft = [F._connection.transport]          # the Follower's transport: its outq carries pongs to the Leader
        lt = [L._connection.transport]
        mode = c["mode"]
        t_silence = t_conn + c["silence_at"] * P if mode == "silent" else None
        release = {}
        d_l2f = float(c.get("l2f_delay") or 0.0) if bulk else 0.0
        paused_at_expiry = [0]

        def burst_hold(t, delay):
            """one-way latency `delay` for the bytes written on t: every write becomes deliverable `delay` after it
            was made (bytes written at the same instant travel together); returns ("n", k) when k bytes are due
            now, or ("at", time) when nothing is due before `time`"""
            now = W.clock.seconds()
            segs = release.setdefault(id(t), [])
            last_total = segs[-1][1] if segs else getattr(t, "_verif_base", None)
            if last_total is None:
                # first sight of this transport: whatever is already queued is due `delay` from now
                t._verif_base = t.delivered_total
                last_total = t.delivered_total
            if t.sent_total > last_total:
                segs.append((now + delay, t.sent_total))
            due = t.delivered_total
            for (rt, tot) in segs:
                if rt <= now:
                    due = max(due, tot)
            while segs and segs[0][1] <= t.delivered_total:
                segs.pop(0)
            if due > t.delivered_total:
                return ("n", due - t.delivered_total)
            nxt = [rt for (rt, tot) in segs if tot > t.delivered_total]
            return ("at", min(nxt)) if nxt else None

        def hold(t):
            now = W.clock.seconds()
            if t is lt[0] and d_l2f > 0:
                return burst_hold(t, d_l2f * P)
            if t is not ft[0]:
                return None
            if mode == "silent" and now >= t_silence:
                return ("at", 10 ** 12)
            if mode == "slow":
                return burst_hold(t, c["delay"] * P)
            return None
        horizon = [t_conn + 12 * P]

        hold2 = hold

        def stop_when():
            return len(mon.discs) > n_disc0
        # timed actions: the silence instant, bulk writes placed relative to the monitor's timer expiries,
        # and the loss of the link
        actions = []
        if t_silence is not None:
            actions.append((t_silence, ("noop",)))
        base = L._timer.getTime() if getattr(L, "_timer", None) is not None else t_conn + P
        for (k, off, size) in bulk:
            actions.append((max(t_conn, base + (k - 1) * P - off * max(d_l2f, 0.05) * P), ("write", size)))
        if c.get("kill_at") is not None and mode != "silent":
            actions.append((t_conn + c["kill_at"] * P, ("kill",)))
        actions.sort(key=lambda x: x[0])
        midkill = None
        killed_in_state = None
        for (t_act, act) in actions:
            if t_act > horizon[0] or stop_when():
                break
            if t_act > W.clock.seconds():
                drive(case, t_act, hold=hold2, stop_when=stop_when)
            if stop_when():
                break
            if act[0] == "write" and sub_end[0] is not None and "lost" not in sub_end[0].kinds():
                e = sub_end[0]
                data = (b"%d:" % len(e.writes)) + b"x" * act[1]
                e.transport.write(data)
                e.writes.append(data)
            elif act[0] == "kill":
                links = [l for l in case.selected_links() if not l.a.broken]
                if not links or L._connection is None:
                    continue
                killed_in_state = case_traffic_state(L)
                old = L._connection
                for l in links:
                    l.break_()
                t0 = W.clock.seconds()

                def reconnected(old=old):
                    return all(m._connection is not None and not m._connection.transport.lost and
                               not m._connection.transport.broken and m._connection is not old for m in ms)
                drive(case, t0 + max(3.0, 0.5 * P), hold=hold2, stop_when=reconnected)
                if not reconnected():
                    midkill = "not-reconnected"
                    res.violate("resume", "the link was lost %.3g intervals after connecting (monitor state %s) and the "
                                "sides never got a new connection (Manager states %r, logged %r)" % (
                                    c["kill_at"], killed_in_state, [case.state_name(m) for m in ms],
                                    W.error_summaries()[:2]), input_class="no-new-generation-after-loss")
                    break
                midkill = "reconnected"
                reconnects += 1
                mon.wrap_connection()
                ft[0], lt[0] = F._connection.transport, L._connection.transport
                t1 = W.clock.seconds()
                horizon[0] = max(horizon[0], t1 + 6 * P)
                nsent_k = len(mon.sent_times)
                drive(case, t1 + P * (1 + 1e-6), hold=hold2, stop_when=stop_when)
                if not stop_when():
                    later = [t for t in mon.sent_times[nsent_k:] if t - t1 <= P + 1e-9]
                    if not later and not [a for a in mon.answered if a[0] >= t1 - 1e-9]:
                        res.violate("resume", "no ping was sent within one interval of the connection that replaced the "
                                    "lost one (monitor state at the loss %s)" % killed_in_state,
                                    input_class="monitoring-not-resumed")
        if midkill != "not-reconnected" and not stop_when():
            drive(case, horizon[0], hold=hold2, stop_when=stop_when)
        dropped = len(mon.discs) > n_disc0
        answered_before = [a for a in mon.answered if a[0] >= t_conn - 1e-9]
        info = "P=%.4g mode=%s silence_at=%.3gP delay=%.3gP prekill=%s answered=%d" % (
            P, mode, c["silence_at"], c["delay"], c["prekill"], len(answered_before))
        phase2 = None
        if mode in ("responsive", "slow"):
            if dropped:
                res.violate("responsive", "a connection whose peer answered every ping within %.3g P was dropped %.4g s "
                            "after it was established; %s" % (c["delay"], mon.discs[-1][0] - t_conn, info),
                            input_class="dropped-responsive-connection")
        else:
            t_a = max([a[0] for a in mon.answered if a[1] <= t_silence] + [t_conn])
            if not dropped:
                res.violate("silent", "peer silent since t=%.4g (%.3g P after connecting) but the connection was never "
                            "dropped within 12 intervals; %s" % (t_silence - t_conn, c["silence_at"], info),
                            input_class="silent-connection-never-dropped")
            else:
                t_d = mon.discs[n_disc0][0]
                if t_d - t_a >= 3 * P + 1e-9:
                    res.violate("silent", "silent connection dropped %.4g s = %.3g intervals after the last answered "
                                "ping (limit 3); %s" % (t_d - t_a, (t_d - t_a) / P, info),
                                input_class="silent-connection-dropped-late")
                res.notes["drop_lag_in_intervals_x10=%d" % int(10 * (t_d - t_a) / P)] += 1
                # ---- a new generation starts; the peer answers again
                mode = "responsive"
                t0 = W.clock.seconds()

                def reconnected():
                    return all(m._connection is not None and not m._connection.transport.lost and
                               m._connection is not mon.discs[n_disc0][1] for m in ms)
                drive(case, t0 + max(3.0, 0.5 * P), hold=None, stop_when=reconnected)
                if not reconnected():
                    res.violate("silent", "after the monitor dropped the silent connection the sides did not "
                                "reconnect (Manager states %r); %s" % ([case.state_name(m) for m in ms], info),
                                input_class="no-new-generation-after-drop")
                else:
                    reconnects += 1
                    phase2 = "reconnected"
                    mon.wrap_connection()
                    ft[0] = F._connection.transport
                    t1 = W.clock.seconds()
                    nsent = len(mon.sent_times)
                    nd = len(mon.discs)
                    drive(case, t1 + 4 * P, hold=None, stop_when=lambda: len(mon.discs) > nd)
                    if len(mon.discs) > nd:
                        res.violate("responsive", "the replacement connection (peer responsive) was dropped after "
                                    "%.4g s; %s" % (mon.discs[-1][0] - t1, info), input_class="dropped-responsive-connection")
                    later = [t for t in mon.sent_times[nsent:] if t - t1 <= P + 1e-9]
                    transmitted = [a for a in mon.answered if a[0] >= t1 - 1e-9]
                    if not later and not transmitted:
                        res.violate("resume", "no ping was sent within one interval of the replacement connection; %s" % info,
                                    input_class="monitoring-not-resumed")
        # ---- stop: the Leader closes first; from the moment its Manager has been told to stop (STOPPING while the
        # connection is still closing, then STOPPED) no interval timer of the monitor may be scheduled
        stop_bad = []
        try:
            case.install_traces()

            def chk(cs):
                if stop_bad or cs.state_name(L) not in ("STOPPING", "STOPPED"):
                    return
                mt = [dc for dc in W.clock.getDelayedCalls() if "timer_expired" in getattr(dc.func, "__qualname__", "")]
                if mt:
                    stop_bad.append((cs.state_name(L), len(mt)))
            if case.closed_called[li] is None and L._connection is not None:
                case._do_intent(["wclose", li])
                chk(case)
                case.settles.append(case.settle(after_step=chk, max_time=2 * P + 5.0))
        except Exception as ex:
            res.notes["stop_phase_error:%s" % type(ex).__name__] += 1
        if stop_bad:
            res.violate("stop", "dilation was stopped (Leader Manager %s) but %d interval timer(s) of the traffic monitor are "
                        "still scheduled" % stop_bad[0], input_class="monitor-timer-survives-stop")
        case.close_all()
        left = [dc for dc in W.clock.getDelayedCalls()]
        if left and all(case.close_results[i] for i in range(2)):
            res.violate("stop", "%d timer(s) still scheduled after both wormholes closed: %r" % (
                len(left), [getattr(dc.func, "__qualname__", str(dc.func))[:60] for dc in left][:3]),
                input_class="timer-left-after-close")
        for kind, ex, f in case.escaped:
            res.violate("escape", "exception escaped %s: %r" % (kind, ex), input_class="escaped:%s" % type(ex).__name__,
                        exc=type(ex).__name__)
            break
        frac = (c["silence_at"] % 1.0)
        res.nontrivial = (c["mode"] == "silent" and 0.05 < frac < 0.95) or reconnects > 0 or c["mode"] == "slow" or \
            mon.paused_at_expiry > 0
        res.features = dict(mode=c["mode"], P=common.bucket(int(P), [0, 1, 10, 60]), prekill=c["prekill"],
                            answered=common.bucket(len(answered_before), [0, 1, 3, 6]), dropped=dropped,
                            phase2=str(phase2), paused_at_expiry=min(mon.paused_at_expiry, 2),
                            midkill="%s/%s" % (midkill, killed_in_state))
        res.trace = "%s|%d|%d|%.2f" % (c["mode"], len(mon.sent_times), len(mon.answered), c["silence_at"])
        res.steps = W.steps
        res.sample = dict(case=c, pings_sent=len(mon.sent_times), answered=len(mon.answered),
                          drops=[round(t - t_conn, 3) for t, _ in mon.discs[n_disc0:]])
    finally:
        case.finish()
    for (exc, frame, msg) in case.errors:
        res.notes["errlog:%s@%s" % (exc, frame)] += 1
    return res
