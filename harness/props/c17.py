# C17 - Dilation never blocks shutdown; an incapable peer is reported, not awaited.
import json
from hypothesis import strategies as st
from runner import CaseResult
from props import common
import dilworld
from dilworld import unwrap
CASE_WALL_S = 60

ID = "C17"
TIERS = {"quick": dict(examples=2400), "thorough": dict(examples=40000)}
RULE = ("The dilated world of C11 (dilate() timing, listeners, relay, byte-wise handshakes, kills of the selected "
        "link, timers) with close() issued on one or both sides at a tape-chosen step, so that every Manager x "
        "Connector state is hit, also with eventual-queue callbacks pending. Peer variants: dilating; created "
        "without dilation; never calls dilate(). The peer may turn SILENT at a tape-chosen step (its TCP bytes "
        "are black-holed, links stay up), including during stabilisation. The transit relay (dialled once at start "
        "and once more when the peer's hints name it) may be slow: its dials stay in flight until stabilisation "
        "or for ever. Subchannel connect()/listen() are issued "
        "before and after the versions arrive. Oracle after stabilisation: every side that called close() got its "
        "closed notification exactly once; judged right after the scheduler event in which it fired: that side "
        "owns no listening port, no pending connection attempt, and every TCP connection it owns - selected or "
        "not, dialled or accepted - has been told to close. If the peer's versions show it cannot dilate, every "
        "connect() Deferred obtained before or after the versions arrived has failed with "
        "OldPeerCannotDilateError by quiescence. Non-trivial = close() issued while the Manager was not in "
        "WAITING/WANTING/CONNECTED, or the peer cannot dilate, or the peer is silent. Distinct = (features incl. "
        "Manager/Connector state at close, trace).")
RULE += (' Added later: close() on the Leader right after it gave up on a silent connection (ping timeout: transport told to close, connectionLost not yet delivered); the silent side may be chosen by role.')
ASSUMPTIONS = ["simulated TCP and mailbox; the mailbox link of a silent peer keeps working",
               "'always completes' = closed fires within the stabilisation budget"]


@st.composite
def cases(draw, tier="quick"):
    P = {}
    peer = draw(st.sampled_from(["dilating", "dilating", "dilating", "nodilation", "neverdilates"]))
    P["peer"] = peer
    P["dilation"] = [True, peer != "nodilation"]
    P["dilate_at"] = [draw(st.sampled_from(["start", "tape"] if peer != "nodilation" else ["start", "tape", "tape", "tape"])),
                      "never" if peer != "dilating" else draw(st.sampled_from(["start", "tape"]))]
    P["no_listen"] = draw(st.sampled_from([[False, False], [False, False], [True, False], [False, True]]))
    P["relay"] = draw(st.booleans())
    # a slow relay: dials to it stay in flight until stabilisation (or for ever)
    P["relay_slow"] = P["relay"] and draw(st.booleans())
    P["relay_slow_forever"] = P["relay_slow"] and draw(st.booleans())
    P["kills"] = draw(st.sampled_from([0, 0, 1, 2]))
    P["ping_interval"] = [draw(st.sampled_from([1.0, 5.0, 30.0]))] * 2
    P["settle_time"] = 45.0
    ops = [["listen", 0, "p"]]
    if peer == "dilating":
        ops.append(["listen", 1, "p"])
    for k in range(draw(st.integers(0, 2))):
        ops.append(["open", 0, "p"])
    if peer == "dilating" and draw(st.booleans()):
        ops.append(["open", 1, "p"])
    n0 = sum(1 for o in ops if o[0] == "open" and o[1] == 0)
    for idx in range(n0):
        for _ in range(draw(st.integers(0, 2))):
            ops.append(["write", [0, idx], "o", draw(st.sampled_from([1, 300, 70000]))])
    closers = draw(st.sampled_from([[0], [0], [1], [0, 1]]))
    for c in closers:
        ops.append(["wclose", c])
    perm = draw(st.permutations(range(len(ops))))
    P["ops"] = [ops[j] for j in sorted(range(len(ops)), key=lambda j: (0 if ops[j][0] == "listen" else 1, perm[j]))]
    P["silent"] = draw(st.sampled_from([None, None, 0, 1]))
    P["kill_notify"] = "tape"
    # steering: optionally close a side the moment its Manager (or Connector) is seen in a given state,
    # so that the rarely visited states (FLUSHING, LONELY, ABANDONING, a candidate awaiting accept) are hit
    if draw(st.booleans()):
        P["close_in_state"] = [draw(st.integers(0, 1)), draw(st.sampled_from(
            ["WANTING", "CONNECTING", "CONNECTED", "CONNECTED", "CONNECTED", "CONNECTED", "CONNECTED", "FLUSHING", "LONELY",
             "ABANDONING", "CANDIDATE", "CANDIDATE"]))]
        # the steered side closes only when the state is reached (or at the end); the other side stays up
        P["ops"] = [o for o in P["ops"] if o[0] != "wclose"]
        if P["close_in_state"][1] in ("FLUSHING", "LONELY", "ABANDONING"):
            P["kills"] = max(P["kills"], 2)
            P["w_kill"] = 6
            # these states exist only on one role: aim at whichever side turns out to be Leader/Follower
            P["close_in_state"][0] = "L" if P["close_in_state"][1] == "FLUSHING" else "F"
            # ABANDONING needs the Leader to notice the loss first; LONELY the Follower
            P["kill_notify"] = {"FLUSHING": "leader", "ABANDONING": "leader", "LONELY": "follower"}[P["close_in_state"][1]]
            P["silent"] = None
            if P["peer"] != "dilating":
                P["peer"] = "dilating"
                P["dilation"] = [True, True]
                P["dilate_at"] = [P["dilate_at"][0], "start"]
    if P.get("close_in_state") and P["close_in_state"][1] == "CONNECTED" and draw(st.integers(0, 2)) > 0:
        # close() while CONNECTED in a later generation: the link is lost 1-2 times first (noticed by the Leader,
        # the Follower, or both), and the steered close waits for those losses
        P["close_after_kills"] = draw(st.integers(1, 2))
        P["kills"] = P["close_after_kills"]
        P["w_kill"] = 6
        P["kill_notify"] = draw(st.sampled_from(["leader", "leader", "follower", "both", "tape"]))
        P["close_in_state"][0] = draw(st.sampled_from(["L", "F"]))      # by role, whichever side gets it
        P["silent"] = None
        if P["peer"] != "dilating":
            P["peer"] = "dilating"
            P["dilation"] = [True, True]
            P["dilate_at"] = [P["dilate_at"][0], "start"]
    if draw(st.integers(0, 7)) == 0:
        # close() on the Leader right after it gave up on a silent connection (ping timeout): it has told the
        # transport to close, connectionLost has not been delivered yet
        P["close_in_state"] = ["L", "TIMEDOUT"]
        P["ops"] = [o for o in P["ops"] if o[0] != "wclose"]
        P["silent"] = "F"
        P["kills"] = 0
        P["ping_interval"] = [draw(st.sampled_from([1.0, 5.0]))] * 2
        P.pop("close_after_kills", None)
        P["peer"] = "dilating"
        P["dilation"] = [True, True]
        P["dilate_at"] = [P["dilate_at"][0], "start"]
    P["reuse_endpoints"] = draw(st.booleans())
    P["w_app"] = draw(st.sampled_from([1, 2, 4]))
    n = draw(st.integers(10, 400))
    P["tape"] = draw(st.binary(min_size=n, max_size=n))
    return P


def strategy(tier):
    return cases(tier)


def owned_leftovers(case, i):
    """what side i still owns on the simulated network"""
    node = case.ws[i]._sim_node
    net = case.W.net
    left = []
    for port, p in sorted(net.ports.items()):
        if p.node is node and p.listening:
            left.append(("listening-port", port))
    for cn in net.pending:
        if cn.node is node:
            left.append(("pending-connect", cn.port))
    for l in net.all_links:
        for t in (l.a, l.b):
            if t.owner is node and not t.lost and not t.closing:
                p = unwrap(t.protocol)
                kind = "selected" if getattr(p, "_manager", None) is not None else "unselected"
                left.append(("open-%s-%s-connection" % (kind, "dialled" if t is l.a else "accepted"), l.port.portnum))
    return left


def run_case(P):
    from wormhole._dilation.manager import OldPeerCannotDilateError
    res = CaseResult()
    case = dilworld.DilCase(P)
    case.setup()
    at_closed = [None, None]
    silent_on = [False]
    steered = [None]

    def after(c):
        for i in range(2):
            if at_closed[i] is None and c.close_results[i]:
                at_closed[i] = owned_leftovers(c, i)
        tgt = P.get("close_in_state")
        if tgt and tgt[0] in ("L", "F"):
            li = c.leader_index()
            tgt = None if li is None else [li if tgt[0] == "L" else 1 - li, tgt[1]]
        if tgt and c.closed_called[tgt[0]] is None:
            m = c.managers()[tgt[0]]
            hit = False
            if m is not None:
                if tgt[1] == "TIMEDOUT":
                    node = c.ws[tgt[0]]._sim_node
                    hit = silent_on[0] and c.state_name(m) == "CONNECTED" and any(
                        t.owner is node and t.closing and not t.lost
                        for l in c.W.net.links for t in (l.a, l.b))
                elif tgt[1] == "CANDIDATE":
                    cn = getattr(m, "_connector", None)
                    hit = cn is not None and bool(getattr(cn, "_contenders", None)) and \
                        getattr(cn, "_winning_connection", None) is None
                else:
                    hit = c.state_name(m) == tgt[1] and c.kills >= P.get("close_after_kills", 0)
            if hit:
                steered[0] = tgt[1]
                c.remaining_intents = [it for it in getattr(c, "remaining_intents", []) if it != ["wclose", tgt[0]]]
                c._do_intent(["wclose", tgt[0]])
                for i in range(2):
                    if at_closed[i] is None and c.close_results[i]:
                        at_closed[i] = owned_leftovers(c, i)

    def extra(c):
        out = []
        if P["silent"] is not None and not silent_on[0]:
            idx = P["silent"]
            if idx in ("L", "F"):
                li = c.leader_index()
                # by role; only once the first connection is in use (the silence begins on an established link)
                idx = None if li is None or not c.selected_links() else (li if idx == "L" else 1 - li)

            def go_silent(c2, idx=idx):
                silent_on[0] = True
                c2.W.net.silent_nodes.add(c2.ws[idx]._sim_node)
            if idx is not None:
                out.append((3 if P["silent"] in ("L", "F") else 1, ("custom", go_silent)))
        return out
    try:
        case.run(extra_choices=extra, after_step=after)
        if P["silent"] is not None and not silent_on[0]:
            idx = P["silent"]
            if idx in ("L", "F"):
                li = case.leader_index()
                idx = None if li is None else (li if idx == "L" else 1 - li)
            if idx is not None:
                silent_on[0] = True
                case.W.net.silent_nodes.add(case.ws[idx]._sim_node)
        for i in range(2):
            if not case.dilated[i] and P["dilate_at"][i] != "never":
                case._do_intent(["dilate", i])
        case.flush_intents(skip=(), after_step=after)
        case.settles.append(case.settle(after_step=after))
        closers = [i for i in range(2) if case.closed_called[i] is not None]
        settled = all(s in ("quiescent", "time") for s in case.settles)
        incapable_checked = False
        versions_seen = getattr(case.ws[0]._boss, "_their_versions", None) is not None
        if P["peer"] == "nodilation" and settled and versions_seen:
            # versions have arrived by now; one more connect() issued afterwards must fail too
            if case.closed_called[0] is None and case.dilated[0]:
                case._do_intent(["open", 0, "p"])
                case.settles.append(case.settle(after_step=after))
            for o in case.opens:
                if o[0] != 0:
                    continue
                incapable_checked = True
                if o[3] is None:
                    if case.closed_called[0] is not None and o[4] >= case.closed_called[0]:
                        continue
                    res.violate("incapable", "peer was created without dilation, but a connect() Deferred %s" % (
                        "succeeded" if o[2] is not None else "is still pending at quiescence"),
                        input_class="connect-not-failed-for-incapable-peer")
                elif not isinstance(o[3].value, OldPeerCannotDilateError) and case.closed_called[0] is None:
                    res.violate("incapable", "connect() failed with %r instead of OldPeerCannotDilateError" % o[3].value,
                                input_class="wrong-error-for-incapable-peer", exc=type(o[3].value).__name__)
        # whoever has not closed yet closes now; everything must still complete
        case.close_all()
        after(case)
        settled = all(s in ("quiescent", "time") for s in case.settles)
        if not settled:
            res.inconclusive = True
        for i in range(2):
            n = len(case.close_results[i])
            st_ = (getattr(case, "states_at_close", {}) or {}).get(i)
            if n == 0:
                if settled:
                    res.violate("completes", "side %d: close() never completed (Manager/Connector state at close %r, "
                                "peer %s, silent=%r, kills %d)" % (i, st_, P["peer"], P["silent"], case.kills),
                                input_class="close-never-completes:%s" % (st_[0] if st_ else None))
                continue
            if n > 1:
                res.violate("completes", "side %d: %d closed notifications" % (i, n), input_class="closed-twice")
            left = at_closed[i]
            if left:
                kinds = sorted({k for k, _ in left})
                res.violate("shutdown", "side %d: when its closed notification fired it still owned %r (state at "
                            "close %r, peer %s, silent=%r)" % (i, left[:4], st_, P["peer"], P["silent"]),
                            input_class="left-after-closed:%s" % "+".join(kinds))
    finally:
        case.finish()
    for it, ex in case.api_exc:
        res.violate("api", "%r raised %r" % (it, ex), input_class="api-raises:%s" % type(ex).__name__, exc=type(ex).__name__)
        break
    sts = getattr(case, "states_at_close", {}) or {}
    interesting = any((sts.get(i) or ("WAITING",))[0] not in ("WAITING", "WANTING", "CONNECTED", None, "?") for i in sts)
    res.nontrivial = interesting or P["peer"] != "dilating" or P["silent"] is not None
    res.features = dict(peer=P["peer"], silent=str(P["silent"]), s0=str((sts.get(0) or (None,))[0]),
                        s1=str((sts.get(1) or (None,))[0]), kills=min(case.kills, 2), relay=P["relay"],
                        steered=str(steered[0]) + ("+%dkills" % P["close_after_kills"] if P.get("close_after_kills") else ""),
                        reuse_ep=P.get("reuse_endpoints"))
    for i, stt in sts.items():
        res.notes["close@Manager=%s,Connector=%s" % (stt[0], stt[1])] += 1
    for (exc, frame, msg) in case.errors:
        res.notes["errlog:%s@%s" % (exc, frame)] += 1
    res.trace = dilworld.trace_of(case)
    res.steps = case.W.steps
    res.sample = dict(params={k: v for k, v in P.items() if k != "tape"}, states_at_close={str(k): v for k, v in sts.items()},
                      close_results=[[mb(x) for x in case.close_results[i]] for i in range(2)])
    return res


def mb(x):
    v = getattr(x, "value", x)
    return v if isinstance(v, str) else type(v).__name__
