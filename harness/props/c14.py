# C14 - no internal failure on any legal use against a conformant server.
from hypothesis import strategies as st
from runner import CaseResult
import mbworld
from props import common
from wormhole.errors import WormholeError
CASE_WALL_S = 12

ID = "C14"
TIERS = {"quick": dict(examples=3000, parts=dict(main=2400, latecode=800)),
         "thorough": dict(examples=100000, parts=dict(main=80000, latecode=20000))}
RULE = ("Union of the mailbox-world generators restricted to LEGAL application behaviour (one code call by any "
        "method before close(); input-helper calls in any order; send/derive_key/get_*/close at any time incl. "
        "from inside delegate callbacks and twice) against conformant-server behaviours (any interleaving, "
        "`message` dup/reorder, multi-message chunks incl. the rest of a chunk after an internal stop, a crowding "
        "third participant, injected `error`, welcome error/motd, refused first connection, 0-4 losses, failed WebSocket negotiations on reconnect). Oracle: "
        "no exception other than a documented WormholeError escapes an API call; nothing escapes a ws_* entry "
        "point; no error is logged whose innermost frame is under wormhole/ (NoTransition, AssertionError, ...); "
        "the closed verdict is 'happy' or a WormholeError. Non-trivial = the case reached a (machine,state,input) "
        "triple in a closing/closed state, used re-entrancy, a third party, an injected error or a loss. "
        "Distinct = (features, event-kind trace). The set of (machine,state,input) triples reached by the run is "
        "written to evidence.")
RULE += (' Added later: WebSocket CLOSING window, outages, raw UTF-8 server JSON with non-ASCII motd / error texts.')
ASSUMPTIONS = ["conformant server = the real wormhole_mailbox_server plus the listed delivery freedoms",
               "code-entry calls after close() are not legal orders (docs define no behaviour): not generated"]

XOPS = ["derive", "refresh", "npc", "wc", "wl", "np_again", "words_again", "code_again", "alloc_again", "send", "close"]


@st.composite
def cases(draw, tier="quick"):
    P = {}
    P["mode"] = draw(st.sampled_from(["delegate", "delegate", "deferred"]))
    shape = draw(st.sampled_from(["pair", "pair", "solo", "wrong", "error", "unwelcome", "motd", "refuse", "third",
                                  "unwelcome", "pair"]))
    P["shape"] = shape
    cm = draw(st.sampled_from([["set", "set"], ["alloc", "fromA"], ["set", "input"], ["alloc", "input"],
                               ["input", "set"], ["alloc", "set"]]))
    if shape == "solo":
        cm = [draw(st.sampled_from(["set", "alloc", "input"])), "none"]
    P["codemode"] = cm
    if shape == "pair" and cm == ["set", "set"] and draw(st.integers(0, 3)) == 0:
        P["codes"] = ["7", "7"]          # a code that is only a nameplate (empty password) is well-formed
    if shape == "wrong":
        P["codes"] = ["7-purple-sausages", "7-purple-sausagez"]
        if cm[0] == "alloc":
            P["code_suffix"] = [None, "x"]
    payload = st.binary(max_size=12)
    # (now and then a message of a few kilobytes, or around a power of two)
    payload = st.one_of(payload, payload, payload, st.sampled_from([2008, 2009, 2048, 4096, 5000, 16384]).map(lambda n: b"\xa7" * n))
    P["sends"] = [draw(st.lists(payload, max_size=5)), draw(st.lists(payload, max_size=3))]
    P["drops"] = draw(st.sampled_from([0, 0, 1, 2, 4]))
    P["dup"] = draw(st.booleans())
    P["reorder"] = draw(st.booleans())
    if shape == "error":
        P["inject_error"] = draw(st.integers(0, 1))
    if shape == "unwelcome":
        if draw(st.integers(0, 2)) > 0:
            P["welcome_error"] = draw(st.sampled_from(["go away", "geh weg \u2013 geschlo\u00dfen \u2603"]))
        else:
            # the server starts refusing clients later: only re-connections are greeted with the error
            P["welcome_error_late"] = [draw(st.integers(2, 4)), "go away"]
            P["drops"] = max(P["drops"], 2)
    if shape == "motd":
        P["welcome_motd"] = draw(st.sampled_from(["hello", "Gr\u00fc\u00dfe \u2603 \U0001f600"]))
    if shape == "refuse":
        r = draw(st.integers(0, 1))
        P["refuse"] = [1 if r == 0 else 0, 1 if r == 1 else 0]
    if shape == "third":
        P["third"] = draw(st.sampled_from(["before", "after"]))
    closes = []
    for side in range(2):
        if draw(st.integers(0, 2)) == 0:
            closes.append([side, draw(st.sampled_from([None, None, "welcome", "code", "key", "verifier",
                                                       "versions", "msg"]))])
    P["closes"] = closes
    P["close_twice"] = draw(st.integers(0, 4)) == 0
    if P["mode"] == "delegate" and draw(st.integers(0, 2)) == 0:
        P["reenter"] = [draw(st.integers(0, 1)),
                        draw(st.sampled_from(["welcome", "code", "key", "verifier", "versions", "msg"])),
                        draw(st.sampled_from(["close", "close", "send", "derive"]))]
    P["extra_ops"] = draw(st.lists(st.tuples(st.integers(0, 1), st.sampled_from(XOPS)).map(list), max_size=4))
    P["gets"] = draw(st.sampled_from(["early", "tape", "late"]))
    P["input_refresh"] = draw(st.booleans())
    P["wl_cb"] = draw(st.sampled_from(["wc", "wc", "close", "send"]))
    P["hs_fail"] = draw(st.sampled_from([[0, 0], [0, 0], [1, 0], [0, 1], [1, 2]]))
    P["hs_slow"] = draw(st.sampled_from([[False, False], [False, False], [True, False], [True, True]]))
    P["hs_fail_first"] = draw(st.sampled_from([[False, False], [False, False], [False, False], [True, False], [False, True]]))
    # w.dilate() is a legal API call too: its dilate-N control records share the mailbox (and its faults)
    P["dilate"] = draw(st.sampled_from([[False, False], [False, False], [False, False], [True, False], [False, True], [True, True]]))
    if draw(st.integers(0, 3)) == 0:
        slow = draw(st.integers(0, 1))
        P["w_s2c"] = [1 if slow == 0 else 10, 1 if slow == 1 else 10]      # a slow reader: its inbound queue builds up
        P["w_adv"] = draw(st.sampled_from([2, 6]))
    n = draw(st.integers(0, 240))
    P["closing_drops"] = draw(st.booleans())   # graceful server closes pass through the WebSocket CLOSING state
    P["raw_utf8"] = draw(st.booleans())          # the server does not \u-escape non-ASCII text in its JSON
    # outages: a budget of reconnection attempts that fail at the TCP level, several in a row
    P["re_refuse"] = draw(st.sampled_from([[0, 0], [0, 0], [3, 0], [0, 7], [12, 12]]))
    P["tape"] = draw(st.binary(min_size=n, max_size=n))
    return P


@st.composite
def latecode_cases(draw, tier="quick"):
    """directed variant: code entry (set/allocate reply/input helper) racing with a closure the
    wormhole started on its own (welcome error, server error), with connection losses around it"""
    P = draw(cases(tier))
    shape = draw(st.sampled_from(["error", "unwelcome"]))
    side = draw(st.integers(0, 1))
    for k in ("welcome_error", "welcome_error_late", "inject_error", "third", "refuse", "codes", "code_suffix", "welcome_motd"):
        P.pop(k, None)
    P["shape"] = shape
    other = draw(st.sampled_from(["set", "alloc"]))
    mine = draw(st.sampled_from(["input", "input", "alloc", "set"]))
    if mine == "alloc" and other == "alloc":
        other = "set"
    if mine == "input" and other == "alloc":
        cm = ["alloc", "input"]
        side = 1
    else:
        cm = [other, mine] if side else [mine, other]
    if cm[0] == "alloc" and cm[1] == "set":
        cm[1] = "fromA"
    if cm[1] == "alloc" and cm[0] == "set":
        cm = ["alloc", "fromA"]
        side = 0
    P["codemode"] = cm
    if shape == "error":
        P["inject_error"] = side
    else:
        P["welcome_error"] = draw(st.sampled_from(["go away", "geh weg \u2013 geschlo\u00dfen \u2603"]))
    P["drops"] = draw(st.sampled_from([0, 1, 3]))
    P["closing_drops"] = draw(st.booleans())
    P["w_drop"] = 3
    P["closes"] = []
    return P


PARTS = ["main", "latecode"]


def strategy(tier, part="main"):
    if part == "latecode":
        return latecode_cases(tier)
    return cases(tier)


def _frame_of_exc(ex):
    import traceback
    best = None
    for fs in traceback.extract_tb(ex.__traceback__):
        if "/wormhole/" in fs.filename and "/test/" not in fs.filename:
            best = "%s:%s" % (fs.filename.split("/wormhole/")[-1], fs.name)
    return best


def input_class(excname, frame, msg):
    """what fails, for the known-findings file: exception + the unhandled input and state"""
    import re
    m = re.search(r"method=<function (\S+) at .*method=<function (\S+) at", msg or "")
    if m:
        return "NoTransition:%s-in-%s" % (m.group(1), m.group(2))
    return "%s@%s" % (excname, frame)


def run_case(P):
    res = CaseResult()
    rec = mbworld.run(P)
    res.steps = rec.world.steps
    if any(s not in ("quiescent", "reconnect-loop") for s in rec.settle):
        res.inconclusive = True
    seen = set()
    for it, ex in rec.api_exc:
        if isinstance(ex, WormholeError):
            res.notes["documented_api_error:" + type(ex).__name__] += 1
            continue
        fr = _frame_of_exc(ex)
        ic = input_class(type(ex).__name__, fr, str(ex))
        if ic not in seen:
            seen.add(ic)
            res.violate("api", "API call %r raised %r" % (it[:3], ex), input_class=ic,
                        exc=type(ex).__name__, frame=fr)
    for kind, ex, f in rec.escaped:
        fr = _frame_of_exc(ex)
        ic = input_class(type(ex).__name__, fr, str(ex))
        if ic not in seen:
            seen.add(ic)
            res.violate("escape", "exception escaped event %s: %r" % (kind, ex), input_class=ic,
                        exc=type(ex).__name__, frame=fr)
    for (exc, frame, msg) in rec.errors:
        if frame is None and exc not in ("NoTransition", "AssertionError"):
            res.notes["errlog_outside_wormhole:" + exc] += 1
            continue
        ic = input_class(exc, frame, msg)
        if ic not in seen:
            seen.add(ic)
            res.violate("errlog", "logged %s at %s: %s" % (exc, frame, msg), input_class=ic, exc=exc, frame=frame)
    for i in range(2):
        v = rec.verdict[i]
        if v is None:
            # a close() that never completes is C08's clause, not C14's; tallied only
            res.notes["close_never_completed"] += 1
        elif not (v == "happy" or isinstance(v, WormholeError)):
            ic = "verdict:" + input_class(type(v).__name__, None, str(v))
            if ic not in seen:
                seen.add(ic)
                res.violate("verdict", "side %d closed with %r" % (i, v), input_class=ic, exc=type(v).__name__)
    closing = 0
    for i in range(2):
        for (m, old, inp, new, step) in rec.trans[i]:
            res.notes["T|%s|%s|%s" % (m, old, inp)] += 1
            if m == "B" and old in ("S3_closing", "S4_closed"):
                closing += 1
            if m in ("N", "M") and str(old).startswith(("S4", "S5", "S3")):
                closing += 1
    res.nontrivial = closing > 0 and (bool(P.get("reenter")) or rec.drops > 0 or P["shape"] not in ("pair",)
                                      or bool(P["closes"]))
    res.features = dict(mode=P["mode"], shape=P["shape"], reenter=(P.get("reenter") or [0, "-", "-"])[2],
                        drops=common.bucket(rec.drops, [0, 1, 2]), closes=len(P["closes"]),
                        xops=common.bucket(len(P["extra_ops"]), [0, 1, 3]))
    res.trace = mbworld.abstract_trace(rec)
    res.sample = dict(params=P, verdicts=[mbworld.verdict_name(v) for v in rec.verdict],
                      events=[rec.kinds(0), rec.kinds(1)])
    return res


def post(coverage):
    """(machine, state, input) coverage: reached by this run vs declared in the Automat tables"""
    from wormhole import _boss, _nameplate, _mailbox, _terminator, _code, _allocator, _lister, _input, _key, _order, \
        _receive, _send
    classes = {"B": _boss.Boss, "N": _nameplate.Nameplate, "M": _mailbox.Mailbox, "T": _terminator.Terminator,
               "C": _code.Code, "A": _allocator.Allocator, "L": _lister.Lister, "I": _input.Input, "K": _key.Key,
               "SK": _key._SortedKey, "O": _order.Order, "R": _receive.Receive, "S": _send.Send}
    reached = set()
    for k in coverage.get("counters", {}):
        if k.startswith("T|"):
            _, m, st_, inp = k.split("|", 3)
            reached.add((m, st_, inp))
    out = {}
    unreached = []
    tot_d = tot_r = 0
    for name, cls in classes.items():
        try:
            auto = cls.m._automaton
            declared = {(name, t[0].method.__name__, t[1].method.__name__) for t in auto._transitions}
        except Exception:
            continue
        got = declared & reached
        out[name] = [len(got), len(declared)]
        tot_d += len(declared)
        tot_r += len(got)
        unreached += sorted("%s.%s<-%s" % d for d in declared - reached)
    # drop the raw per-transition counters from the evidence file, keep the summary
    coverage["counters"] = {k: v for k, v in coverage.get("counters", {}).items() if not k.startswith("T|")}
    return dict(transition_coverage=out, transitions_reached=tot_r, transitions_declared=tot_d,
                transitions_unreached=unreached[:80])
