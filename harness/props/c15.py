# C15 - Dilation back-pressure pauses every producer and never loses a wake-up.
import json, collections
from zope.interface import implementer
from hypothesis import strategies as st
from runner import CaseResult
from props import common
import simworld  # noqa: F401  (must precede any import of wormhole._dilation)
CASE_WALL_S = 20

ID = "C15"
TIERS = {"quick": dict(examples=6800, parts=dict(component=6000, world=800)),
         "thorough": dict(examples=220000, parts=dict(component=200000, world=20000))}
PARTS = ["component", "world"]
RULE = ("(component) generated histories of 5-60 operations on the real Outbound and Inbound objects with a model "
        "connection whose send buffer has a generated threshold: register a push or pull producer on a subchannel, "
        "unregister it, close the subchannel, let a producer write k records when resumed (possibly refilling the "
        "buffer INSIDE its turn, obedient or not), drain the transport, install / lose a connection, plain "
        "writes, subchannel pause/resume/stop requests. Invariants after EVERY operation, with last(p) the last "
        "signal given to push producer p: transport paused or no connection => last(p)=pause for every registered "
        "producer and no pull producer is being pulled; no resume is issued between a transport pause and the "
        "next drain; writable connection at rest => no producer is left paused (no lost wake-up); turn-taking: "
        "between two consecutive resumes of X every producer registered throughout got one; Outbound's own "
        "invariant check never fires; the connection's read side is paused iff >=1 open subchannel has an "
        "outstanding pause request, also right after a replacement connection is installed; none of the calls "
        "raises. (world) two real dilated wormholes with application producers on real subchannels and tiny "
        "transport buffers: the same last-signal invariants observed at the application, subchannel "
        "pause/resume through the REAL connection object, kills and replacement of the link. Non-trivial = a "
        "pause arriving inside a producer's turn, a replacement connection while something is paused, or >=2 "
        "producers with interleaved (un)registration. Distinct = (features, operation-kind trace).")
ASSUMPTIONS = ["the model connection pauses synchronously inside send_record() and resumes on drain, as "
               "twisted.internet.abstract.FileDescriptor does", "whether a paused-then-closed subchannel should keep "
               "inbound paused is not stated: measured, not asserted"]

OPS = ["reg_push", "reg_push", "reg_pull", "unreg", "close_sc", "drain", "drain", "drain", "newconn", "loseconn",
       "write", "sc_pause", "sc_resume", "sc_stop", "tick"]


@st.composite
def component_cases(draw):
    n = draw(st.integers(5, 60))
    ops = []
    for _ in range(n):
        op = draw(st.sampled_from(OPS))
        ops.append([op, draw(st.integers(0, 7)), draw(st.sampled_from([0, 1, 3, 10])), draw(st.booleans())])
    return dict(part="component", ops=ops, thresholds=draw(st.lists(st.sampled_from([0, 1, 2, 5, 100]), min_size=1, max_size=6)))


@st.composite
def world_cases(draw):
    c = dict(part="world")
    c["bufsize"] = draw(st.sampled_from([50, 200, 2000, 1 << 16]))
    c["nprod"] = draw(st.integers(1, 3))
    c["burst"] = draw(st.sampled_from([1, 3, 10]))
    c["chunk"] = draw(st.sampled_from([10, 500, 5000]))
    c["pull"] = draw(st.booleans())
    c["kills"] = draw(st.sampled_from([0, 0, 1, 2]))
    c["pauses"] = draw(st.lists(st.sampled_from(["pause", "resume", "pause2", "resume2"]), max_size=6))
    c["close_one"] = c["nprod"] >= 2 and draw(st.booleans())
    n = draw(st.integers(40, 300))
    c["tape"] = draw(st.binary(min_size=n, max_size=n))
    return c


def strategy(tier, part="component"):
    return component_cases() if part == "component" else world_cases()


# ------------------------------------------------------------------ component driver
class FakeTransport:
    def __init__(self, conn):
        self.conn = conn
        self.producer = None

    def registerProducer(self, p, streaming):
        assert self.producer is None
        self.producer = p

    def unregisterProducer(self):
        self.producer = None


class FakeConn:
    """model of the L2 connection + its TCP transport's send buffer and read side"""
    def __init__(self, thresh, log):
        self.transport = FakeTransport(self)
        self.buf = 0
        self.thresh = thresh
        self.paused = False          # we told Outbound to pause
        self.sent = []
        self.read_paused = False
        self.log = log

    def send_record(self, r):
        self.sent.append(r)
        self.buf += 1
        if self.buf > self.thresh and not self.paused and self.transport.producer is not None:
            self.paused = True
            self.log.append(("transport-pause",))
            self.transport.producer.pauseProducing()

    def drain(self):
        self.buf = 0
        if self.paused and self.transport.producer is not None:
            self.paused = False
            self.log.append(("transport-drain",))
            self.transport.producer.resumeProducing()
        else:
            self.log.append(("transport-drain",))

    def pauseProducing(self):
        self.read_paused = True

    def resumeProducing(self):
        self.read_paused = False


def run_component(c, res):
    from twisted.internet.interfaces import IPushProducer, IPullProducer
    from twisted.internet.task import Clock, Cooperator
    from wormhole._interfaces import IDilationManager, ISubChannel
    from wormhole._dilation.outbound import Outbound
    from wormhole._dilation.inbound import Inbound
    from wormhole._dilation.connection import Data
    from wormhole._dilation.subchannel import _WormholeAddress
    from wormhole.eventual import EventualQueue

    @implementer(IDilationManager)
    class M:
        pass

    @implementer(ISubChannel)
    class SC:
        def __init__(self, name):
            self.name = name

        def __repr__(self):
            return self.name
    clock = Clock()
    eq = EventualQueue(clock)
    coop = Cooperator(scheduler=eq.eventually)
    mgr = M()
    ob = Outbound(mgr, coop)
    ib = Inbound(mgr, _WormholeAddress())
    log = []
    state = dict(conn=None)
    producers = {}       # sc name -> producer
    scs = {}             # sc name -> SC
    paused_req = set()   # subchannels with an outstanding pause request (model)
    nsc = [0]
    thresholds = list(c["thresholds"])

    def transport_blocked():
        cn = state["conn"]
        return cn is None or cn.paused

    @implementer(IPushProducer)
    class Push:
        kind = "push"

        def __init__(self, name, burst, obedient, spawn=False):
            self.name, self.burst, self.obedient = name, burst, obedient
            self.last = None
            self.hist = []
            self.spawn = spawn      # registers one more push producer (a new subchannel) from inside its first turn

        def pauseProducing(self):
            self.last = "pause"
            self.hist.append("p")
            log.append(("pause", self.name))

        def resumeProducing(self):
            self.last = "resume"
            self.hist.append("r")
            log.append(("resume", self.name, transport_blocked()))
            if self.spawn and len(producers) < 5:
                self.spawn = False
                nsc[0] += 1
                nm = "sc%d" % nsc[0]
                sc2 = SC(nm)
                scs[nm] = sc2
                p2 = Push(nm, 1, True)
                producers[nm] = p2
                registered_at[nm] = cur_step[0] + 0.5      # registered during this turn, not before it
                ib.subchannel_local_open(nsc[0], sc2)
                ob.subchannel_registerProducer(sc2, p2, True)
                feats["reg_inside_turn"] += 1
            for _ in range(self.burst):
                if self.obedient and self.last == "pause":
                    break
                ob.queue_and_send_record(ob.build_record(Data, 1, b"x"))

        def stopProducing(self):
            self.last = "stop"

    @implementer(IPullProducer)
    class Pull:
        kind = "pull"

        def __init__(self, name, burst):
            self.name, self.burst = name, burst
            self.last = None
            self.pulls = 0

        def resumeProducing(self):
            self.pulls += 1
            log.append(("pull", self.name, transport_blocked()))
            for _ in range(max(1, self.burst)):
                ob.queue_and_send_record(ob.build_record(Data, 1, b"y"))

        def stopProducing(self):
            self.last = "stop"
    turn_seq = []
    last_turn_index = {}
    last_turn_step = {}
    registered_at = {}
    cur_step = [0]
    feats = collections.Counter()
    bad = []

    def V(clause, detail, ic, exc=None):
        if not bad:
            bad.append((clause, detail, ic, exc))

    def check(where):
        # the code's own self-check, when this tree has one under that name (an extra, not the oracle)
        ci = getattr(ob, "_check_invariants", None)
        if ci is not None:
            try:
                ci()
            except AssertionError:
                V("invariant", "Outbound._check_invariants failed after %r" % (where,), "check-invariants-fired")
        blocked = transport_blocked()
        for p in producers.values():
            if p.kind != "push":
                continue
            if blocked and p.last == "resume":
                V("pause-all", "after %r: transport %s but push producer %s was last told to resume (history %s)" % (
                    where, "absent" if state["conn"] is None else "paused", p.name, "".join(p.hist[-8:])),
                  "producer-resumed-while-transport-blocked")
            if not blocked and p.last == "pause":
                V("wakeup", "after %r: transport writable and idle but push producer %s is still paused (history %s)" % (
                    where, p.name, "".join(p.hist[-8:])), "lost-wakeup")
        cn = state["conn"]
        if cn is not None and state.get("inbound_unspecified"):
            # after a paused subchannel was closed only one direction is asserted: as long as some OTHER, live
            # subchannel has an outstanding pause request the connection stays paused
            if paused_req and not cn.read_paused:
                V("inbound", "after %r: connection read side is running although live subchannels %r still have an "
                  "outstanding pause request (a paused subchannel was closed earlier)" % (
                      where, sorted(s.name for s in paused_req)), "inbound-resumed-with-live-pause:%s" % where[1])
        elif cn is not None:
            want = bool(paused_req)
            if cn.read_paused != want:
                V("inbound", "after %r: connection read side paused=%s but subchannels with an outstanding pause "
                  "request: %r" % (where, cn.read_paused, sorted(s.name for s in paused_req)),
                  "inbound-pause-mismatch:%s" % where[1])
    for step, (op, idx, burst, flag) in enumerate(c["ops"]):
        cur_step[0] = step
        before = len(log)
        names = sorted(producers)
        try:
            if op in ("reg_push", "reg_pull") and len(producers) < 5:
                nsc[0] += 1
                name = "sc%d" % nsc[0]
                sc = SC(name)
                scs[name] = sc
                p = Push(name, burst, flag, spawn=(idx % 3 == 0)) if op == "reg_push" else Pull(name, burst)
                producers[name] = p
                registered_at[name] = step
                ib.subchannel_local_open(nsc[0], sc)
                ob.subchannel_registerProducer(sc, p, op == "reg_push")
                feats["reg_" + p.kind] += 1
            elif op == "unreg" and names:
                name = names[idx % len(names)]
                del producers[name]
                ob.subchannel_unregisterProducer(scs[name])
            elif op == "close_sc" and names:
                name = names[idx % len(names)]
                del producers[name]
                scid = int(name[2:])
                ob.subchannel_closed(scid, scs[name])
                ib.subchannel_closed(scid, scs[name])
                if scs[name] in paused_req:
                    # not stated whether a paused-then-closed subchannel keeps inbound paused: measured,
                    # and the inbound clause is not asserted for the rest of this history
                    feats["closed_while_paused"] += 1
                    paused_req.discard(scs[name])
                    state["inbound_unspecified"] = True
                del scs[name]
            elif op == "drain" and state["conn"] is not None:
                state["conn"].drain()
            elif op == "newconn" and state["conn"] is None:
                th = thresholds[step % len(thresholds)]
                cn = FakeConn(th, log)
                state["conn"] = cn
                if paused_req or any(p.last == "pause" for p in producers.values() if p.kind == "push"):
                    feats["replacement_while_paused"] += 1
                ib.use_connection(cn)
                ob.use_connection(cn)
            elif op == "loseconn" and state["conn"] is not None:
                ib.stop_using_connection()
                ob.stop_using_connection()
                state["conn"] = None
            elif op == "write":
                ob.queue_and_send_record(ob.build_record(Data, 1, b"w"))
            elif op in ("sc_pause", "sc_resume", "sc_stop") and scs:
                live = sorted(scs)
                sc = scs[live[idx % len(live)]]
                if op == "sc_pause":
                    ib.subchannel_pauseProducing(sc)
                    paused_req.add(sc)
                elif op == "sc_resume":
                    ib.subchannel_resumeProducing(sc)
                    paused_req.discard(sc)
                else:
                    ib.subchannel_stopProducing(sc)
                    paused_req.discard(sc)
            elif op == "tick":
                clock.advance(0)
        except Exception as ex:
            V("raises", "%s raised %r" % (op, ex), "operation-raises:%s:%s" % (op, type(ex).__name__), type(ex).__name__)
        # let the cooperator run pull producers for a bounded number of turns
        for _ in range(3):
            clock.advance(0)
        new = log[before:]
        # resume issued while the transport is blocked / between a transport pause and the next drain
        blocked_since_pause = False
        for ev in new:
            if ev[0] == "transport-pause":
                blocked_since_pause = True
                feats["pause_inside_turn"] += 1 if any(e[0] in ("resume", "pull") for e in new) else 0
            elif ev[0] == "transport-drain":
                blocked_since_pause = False
            elif ev[0] in ("resume", "pull") and (blocked_since_pause or ev[2]):
                V("pause-all", "%s: %s given to %s while the transport is paused/absent" % (
                    op, "resumeProducing" if ev[0] == "resume" else "a pull", ev[1]),
                  "%s-while-transport-blocked" % ("resume" if ev[0] == "resume" else "pull"))
        resumed = [ev[1] for ev in new if ev[0] == "resume"]
        for name in resumed:
            if name in last_turn_index:
                since = turn_seq[last_turn_index[name] + 1:]
                for other, reg_at in registered_at.items():
                    if other != name and other in producers and producers[other].kind == "push" and \
                            reg_at <= last_turn_step[name] and other not in since:
                        V("turns", "%s was resumed twice while %s (registered throughout) got no turn; turn sequence "
                          "%r" % (name, other, turn_seq[-8:]), "unfair-turn-taking")
            turn_seq.append(name)
            last_turn_index[name] = len(turn_seq) - 1
            last_turn_step[name] = step
        check((step, op))
        if bad:
            break
    if bad:
        cl, detail, ic, exc = bad[0]
        res.violate(cl, detail, input_class=ic, exc=exc)
    res.nontrivial = feats["pause_inside_turn"] > 0 or feats["replacement_while_paused"] > 0 or \
        (feats["reg_push"] + feats["reg_pull"] >= 2)
    res.features = dict(part="component", inside=min(feats["pause_inside_turn"], 2), repl=min(feats["replacement_while_paused"], 2),
                        push=min(feats["reg_push"], 3), pull=min(feats["reg_pull"], 2))
    res.notes["closed_while_paused"] += feats["closed_while_paused"]
    res.trace = ",".join(o[0] for o in c["ops"])
    res.steps = len(c["ops"])
    res.sample = dict(ops=[o[0] for o in c["ops"]][:40], thresholds=c["thresholds"])


# ------------------------------------------------------------------ world driver
def run_world(c, res):
    import dilworld
    from dilworld import unwrap
    from twisted.internet.interfaces import IPushProducer, IPullProducer
    ops = [["listen", 1, "p"]]
    for k in range(c["nprod"]):
        ops.append(["open", 0, "p"])
    P = dict(ops=ops, tape=c["tape"], bufsize=c["bufsize"], kills=c["kills"], w_kill=2, settle_time=45.0)
    case = dilworld.DilCase(P)
    case.setup()
    prods = []
    bad = []
    signals = collections.Counter()

    def V(clause, detail, ic, exc=None):
        if not bad:
            bad.append((clause, detail, ic, exc))

    @implementer(IPushProducer)
    class AppPush:
        def __init__(self, end, total):
            self.end, self.left, self.last = end, total, "resume"
            self.hist = []

        def pauseProducing(self):
            self.last = "pause"
            self.hist.append("p")
            signals["pause"] += 1

        def resumeProducing(self):
            self.last = "resume"
            self.hist.append("r")
            signals["resume"] += 1
            self.produce()

        def stopProducing(self):
            self.last = "stop"

        def produce(self):
            n = 0
            while self.left > 0 and self.last == "resume" and n < c["burst"]:
                d = b"%d:" % len(self.end.writes) + b"z" * c["chunk"]
                self.end.transport.write(d)
                self.end.writes.append(d)
                self.left -= 1
                n += 1

    @implementer(IPullProducer)
    class AppPull:
        def __init__(self, end, total):
            self.end, self.left, self.last = end, total, None
            self.hist = []

        def resumeProducing(self):
            signals["pull"] += 1
            if self.left > 0:
                d = b"%d:" % len(self.end.writes) + b"z" * c["chunk"]
                self.end.transport.write(d)
                self.end.writes.append(d)
                self.left -= 1
            else:
                self.end.transport.unregisterProducer()

        def stopProducing(self):
            self.last = "stop"
    pauses = list(c["pauses"])
    registered = set()

    def after(cs):
        # attach producers as soon as an opener end exists
        for o in cs.opens:
            e = o[2]
            if e is not None and id(e) not in registered and getattr(e, "transport", None) is not None:
                registered.add(id(e))
                p = (AppPull if c["pull"] and len(prods) % 2 == 1 else AppPush)(e, 12)
                prods.append(p)
                try:
                    e.transport.registerProducer(p, isinstance(p, AppPush))
                    if isinstance(p, AppPush) and p.last == "resume":
                        p.produce()
                except Exception as ex:
                    V("raises", "registerProducer raised %r" % ex, "registerProducer-raises:%s" % type(ex).__name__,
                      type(ex).__name__)
        m0 = cs.managers()[0]
        if m0 is None:
            return
        conn = m0._connection
        blocked = conn is None or getattr(conn.transport, "producer_paused", False)
        for p in prods:
            if isinstance(p, AppPush) and p.left > 0 and p not in closed_one:
                if blocked and p.last == "resume" and conn is None:
                    V("pause-all", "no connection but an application push producer was last told to resume (history "
                      "%s)" % "".join(p.hist[-8:]), "producer-resumed-without-connection")

    closed_one = []

    def extra(cs):
        out = []
        # one application gives up early: it closes its subchannel while its producer is still registered and has
        # data left (the other producers carry on and must keep getting their turns)
        if c.get("close_one") and not closed_one and len(prods) >= 2 and isinstance(prods[0], AppPush) and \
                len(prods[0].end.writes) >= 1 and prods[0].left > 0:
            def give_up(cs2):
                p0 = prods[0]
                closed_one.append(p0)
                p0.left = 0          # (a well-behaved application: it does not write after loseConnection())
                p0.end.closed_locally = cs2.step
                try:
                    p0.end.transport.loseConnection()
                except Exception as ex:
                    V("raises", "loseConnection with a registered producer raised %r" % ex,
                      "loseConnection-raises:%s" % type(ex).__name__, type(ex).__name__)
            out.append((3, ("custom", give_up)))
        # a resumed push producer keeps producing on its own schedule: each burst is a scheduler event
        for p in prods:
            if isinstance(p, AppPush) and p.left > 0 and p.last == "resume" and p not in closed_one:
                out.append((4, ("custom", lambda cs2, p=p: p.produce())))
        if pauses:
            accs = cs.accepted[(1, "p")]
            if accs:
                def do(cs2):
                    what = pauses.pop(0)
                    e = accs[(1 if what.endswith("2") else 0) % len(accs)]
                    try:
                        if what.startswith("pause"):
                            e.transport.pauseProducing()
                            cs2.paused_ends = getattr(cs2, "paused_ends", set()) | {id(e)}
                        else:
                            e.transport.resumeProducing()
                            cs2.paused_ends = getattr(cs2, "paused_ends", set()) - {id(e)}
                    except Exception as ex:
                        V("raises", "subchannel %sProducing() on a real dilated connection raised %r" % (
                            what.rstrip("2"), ex), "subchannel-%sProducing-raises:%s" % (what.rstrip("2"), type(ex).__name__),
                          type(ex).__name__)
                    # the real connection's read side must be paused iff a pause request is outstanding
                    m1 = cs2.managers()[1]
                    conn = m1._connection if m1 is not None else None
                    if conn is not None and not bad:
                        want = bool(getattr(cs2, "paused_ends", set()))
                        if conn.transport.read_paused != want:
                            V("inbound", "after %s: read side paused=%s, outstanding pause requests=%s" % (
                                what, conn.transport.read_paused, want), "inbound-pause-mismatch:world")
                out.append((3, ("custom", do)))
        return out
    try:
        case.run(extra_choices=extra, after_step=after)
        # stabilise: un-pause every reader, let everything drain
        for e in case.accepted[(1, "p")]:
            if id(e) in getattr(case, "paused_ends", set()):
                try:
                    e.transport.resumeProducing()
                except Exception as ex:
                    V("raises", "resumeProducing raised %r" % ex, "subchannel-resumeProducing-raises:%s" % type(ex).__name__,
                      type(ex).__name__)
        def after_settle(cs):
            after(cs)
            for p in prods:
                if isinstance(p, AppPush) and p.left > 0 and p.last == "resume" and p not in closed_one:
                    p.produce()
        case.flush_intents(after_step=after_settle)
        for _ in range(6):
            case.settles.append(case.settle(after_step=after_settle))
            if not any(isinstance(p, AppPush) and p.left > 0 and p.last == "resume" and p not in closed_one for p in prods):
                break
        if not bad and all(s in ("quiescent", "time") for s in case.settles):
            for p in prods:
                if p.left > 0 and p not in closed_one:
                    V("wakeup", "at quiescence with a writable connection a %s producer still has %d of 12 chunks "
                      "unsent (last signal %r, history %s)" % (type(p).__name__, p.left, p.last, "".join(p.hist[-8:])),
                      "lost-wakeup:%s" % type(p).__name__)
            for o in case.opens:
                e = o[2]
                accs = case.accepted[(1, "p")]
                if e is not None:
                    k = [x for x in case.opens if x[2] is not None].index(o)
                    if k < len(accs) and accs[k].got() != e.writes:
                        V("wakeup", "produced data did not all arrive: %d of %d" % (len(accs[k].got()), len(e.writes)),
                          "produced-data-missing")
        case.close_all()
    finally:
        case.finish()
    if bad:
        cl, detail, ic, exc = bad[0]
        res.violate(cl, detail, input_class=ic, exc=exc)
    for it, ex in case.api_exc:
        res.violate("raises", "%r raised %r" % (it, ex), input_class="api-raises:%s" % type(ex).__name__, exc=type(ex).__name__)
        break
    res.nontrivial = signals["pause"] > 0 or case.kills > 0 or len(c["pauses"]) > 0
    res.features = dict(part="world", buf=c["bufsize"], nprod=c["nprod"], pull=c["pull"], kills=min(case.kills, 2),
                        paused=signals["pause"] > 0, reads=min(len(c["pauses"]), 3))
    res.notes["app_pause_signals"] += signals["pause"]
    res.notes["app_resume_signals"] += signals["resume"]
    res.notes["app_pulls"] += signals["pull"]
    res.trace = dilworld.trace_of(case)
    res.steps = case.W.steps
    res.sample = dict(case={k: v for k, v in c.items() if k != "tape"}, signals=dict(signals), kills=case.kills)


def run_case(c):
    res = CaseResult()
    if c["part"] == "component":
        run_component(c, res)
    else:
        run_world(c, res)
    return res
