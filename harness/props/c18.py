# C18 - application events arrive once each and in causal order; Deferreds all resolve.
from hypothesis import strategies as st
from runner import CaseResult
import mbworld
from props import common
CASE_WALL_S = 12

ID = "C18"
TIERS = {"quick": dict(examples=3200), "thorough": dict(examples=60000)}
RULE = ("Honest pair under generated schedules with `message` duplication/reordering (off for the "
        "versions-before-messages clause), 0-3 connection losses, both API styles; in Deferred mode every "
        "get_*() is requested at tape-chosen moments (early / interleaved / late) and again after closed; "
        "optional early close() on one side, also while the WebSocket negotiation of the first connection is still "
        "in flight. Oracle per side: each of code/key/verifier/versions/closed at most "
        "once; code < key < verifier < {versions, messages} < closed; verifier before any peer data; with an "
        "order-preserving server versions precede every message; every Deferred ever obtained has fired by "
        "quiescence, those obtained after closed fired with a failure, none fired twice. Non-trivial = a "
        "reorder/dup was applied, or get_*() was requested after closed, or a loss happened. Distinct = "
        "(features, event-kind trace).")
RULE += (' Added later: graceful server closes pass through the WebSocket CLOSING window.')
ASSUMPTIONS = ["simulated WebSocket layer; real server", "Deferred firing observed through callbacks on the "
               "simulated eventual queue"]


@st.composite
def cases(draw, tier="quick"):
    P = {}
    P["mode"] = draw(st.sampled_from(["delegate", "deferred", "deferred"]))
    P["codemode"] = draw(st.sampled_from([["set", "set"], ["alloc", "fromA"], ["set", "input"]]))
    payload = st.one_of(st.binary(max_size=20), st.just(b"same"))
    # (now and then a message of a few kilobytes, or around a power of two)
    payload = st.one_of(payload, payload, payload, st.sampled_from([2008, 2009, 2048, 4096, 5000, 16384]).map(lambda n: b"\xa7" * n))
    P["sends"] = [draw(st.lists(payload, max_size=5)), draw(st.lists(payload, max_size=5))]
    P["drops"] = draw(st.sampled_from([0, 1, 2, 4, 6]))
    P["w_drop"] = draw(st.sampled_from([1, 3, 6]))
    P["extra_msg_gets"] = draw(st.sampled_from([0, 0, 1, 2, 3]))
    P["dup"] = draw(st.booleans())
    P["reorder"] = draw(st.booleans())
    P["gets"] = draw(st.sampled_from(["early", "tape", "tape", "late", "after"]))
    P["get_after_closed"] = True
    P["hs_slow"] = draw(st.sampled_from([[False, False], [False, False], [True, False], [True, True]]))
    P["hs_fail_first"] = draw(st.sampled_from([[False, False], [False, False], [False, False], [True, False], [False, True]]))
    P["get_in_close_cb"] = draw(st.booleans())
    if draw(st.integers(0, 2)) == 0:
        P["closes"] = [[draw(st.integers(0, 1)), draw(st.sampled_from([None, "halfopen", "halfopen", "code", "key", "verifier", "versions"]))]]
        if P["closes"][0][1] == "halfopen":
            P["hs_slow"] = list(P["hs_slow"])
            P["hs_slow"][P["closes"][0][0]] = "only"
    P["w_due"] = draw(st.sampled_from([None, None, 1, 2]))      # eventual-send turns may lag behind the network
    P["gets_lag"] = draw(st.booleans())      # a reader that calls get_message() only after messages have arrived
    if draw(st.integers(0, 2)) == 0:
        slow = draw(st.integers(0, 1))
        P["w_c2s"] = [1 if slow == 0 else 10, 1 if slow == 1 else 10]      # commands of one client pile up in flight
    n = draw(st.integers(0, 260))
    P["closing_drops"] = draw(st.booleans())   # graceful server closes pass through the WebSocket CLOSING state
    P["tape"] = draw(st.binary(min_size=n, max_size=n))
    return P


def strategy(tier):
    return cases(tier)


ORDER = {"code": 0, "key": 1, "verifier": 2, "versions": 3, "msg": 3, "closed": 4}


def run_case(P):
    res = CaseResult()
    rec = mbworld.run(P)
    res.steps = rec.world.steps
    if not all(s == "quiescent" for s in rec.settle):
        res.inconclusive = True
    ordered_observation = P["mode"] == "delegate" or P.get("gets", "early") == "early"
    if P["mode"] == "deferred" and P.get("gets") == "after":
        # nothing was requested before closed: every event recorded came from a get issued after closed
        pass
    for i in range(2):
        kinds = [k for k in rec.kinds(i) if k != "welcome"]
        if P["mode"] == "delegate":
            for once in ("code", "key", "verifier", "versions", "closed"):
                if kinds.count(once) > 1:
                    res.violate("once", "side %d: %s delivered %d times: %r" % (i, once, kinds.count(once), kinds),
                                input_class="event-twice:%s" % once)
            if "closed" in kinds and kinds[-1] != "closed":
                res.violate("order", "side %d: events after closed: %r" % (i, kinds),
                            input_class="event-after-closed")
        if ordered_observation:
            ranks = [ORDER[k] for k in kinds]
            if ranks != sorted(ranks):
                res.violate("order", "side %d: events out of causal order: %r" % (i, kinds),
                            input_class="causal-order")
            if not (P["reorder"]) and "msg" in kinds and "versions" in kinds and \
                    kinds.index("versions") > kinds.index("msg"):
                res.violate("order", "side %d: message before versions with an order-preserving server: %r" % (
                    i, kinds), input_class="message-before-versions")
            if ("msg" in kinds or "versions" in kinds) and "verifier" not in kinds:
                res.violate("order", "side %d: peer data without verifier: %r" % (i, kinds),
                            input_class="data-without-verifier")
        # messages per C03 (positional prefix)
        got = rec.msgs(i)
        if got != rec.sent[1 - i][:len(got)]:
            res.violate("messages", "side %d received %s, peer sent %s" % (
                i, common.short(got), common.short(rec.sent[1 - i])), input_class="received-not-prefix-of-sent")
        if P["mode"] == "deferred" and not res.inconclusive:
            closed_step = None
            if rec.close_results[i]:
                closed_step = True
            for what, entries in rec.gets[i].items():
                vals = []
                for en in entries:
                    r = en["result"]
                    if r is None:
                        res.violate("resolve", "side %d: get_%s() requested at step %d (after_closed=%s) never fired" % (
                            i, what, en["step"], en["after_closed"]), input_class="deferred-never-fired:%s" % what)
                        continue
                    if en["after_closed"] and r[0] == "ok":
                        res.violate("resolve", "side %d: get_%s() obtained after closed succeeded with %r" % (
                            i, what, r[1]), input_class="get-after-closed-succeeded:%s" % what)
                    if r[0] == "ok":
                        vals.append(r[1])
                if what != "msg" and len(set(map(repr, vals))) > 1:
                    res.violate("once", "side %d: get_%s() returned different values %r" % (i, what, vals),
                                input_class="event-value-changed:%s" % what)
            if not rec.close_results[i]:
                res.violate("resolve", "side %d: close() Deferred never fired" % i,
                            input_class="close-deferred-never-fired")
    advn = rec.adv["dup"] + rec.adv["swap"]
    res.nontrivial = advn >= 1 or rec.drops >= 1 or (P["mode"] == "deferred" and P.get("gets") != "early")
    res.features = dict(mode=P["mode"], gets=P["gets"] if P["mode"] == "deferred" else "-",
                        adv=common.bucket(advn, [0, 1, 3]), drops=common.bucket(rec.drops, [0, 1, 2]),
                        early_close=bool(P.get("closes")), code="/".join(P["codemode"]))
    res.notes["msg_before_versions_under_reorder"] += sum(
        1 for i in range(2) if "msg" in rec.kinds(i) and "versions" in rec.kinds(i)
        and rec.kinds(i).index("versions") > rec.kinds(i).index("msg"))
    res.trace = mbworld.abstract_trace(rec)
    res.sample = dict(params=P, events=[rec.kinds(0), rec.kinds(1)])
    return res
