# C02 - the mailbox server (or a third participant) cannot forge, alter, re-label, replay or reflect.
import json, binascii
from hypothesis import strategies as st
from runner import CaseResult
import mbworld
from props import common
from wormhole.errors import WormholeError
CASE_WALL_S = 12

ID = "C02"
TIERS = {"quick": dict(examples=2000), "thorough": dict(examples=50000)}
RULE = ("An honest two-party exchange (matching codes, 0-4 distinct side-tagged plaintexts per side, different app "
        "versions per side) attacked by a generated program of 1-4 operations applied at tape-chosen moments to "
        "tape-chosen queued messages: bit flip / truncate / extend body; relabel phase (other existing, fresh, "
        "version, pake, dilate-0, garbage, non-ASCII digit variants); relabel side (victim's own = reflection, "
        "peer's, fresh, non-ASCII variant); deliver a copy of the victim's own message under another side; replay "
        "a body under another phase; inject random / element-shaped / non-JSON PAKE or data bodies; duplicate; a "
        "raw third participant adding messages to the mailbox; delivering a (possibly re-labelled) non-PAKE message ahead of the PAKE. Oracle (behavioural, no keys): per receiver the "
        "application messages delivered are a positional prefix of the peer's send_message arguments, versions "
        "(if delivered) equal the peer's app versions exactly and are delivered once, verifiers (if both exist) are "
        "equal, a message whose side label was rewritten is never the source of a delivery, each client keeps running or closes with an exception; an unattacked run completes fully. "
        "Non-trivial = >=1 manipulated message actually reached a client. Distinct = (features, trace). An "
        "enumerated single-operation sweep over every operation x message position of a fixed exchange runs "
        "in both tiers.")
ASSUMPTIONS = ["structural manipulations only, no cryptanalytic forgery", "simulated mailbox link, real server"]

OPS = ["flip", "trunc", "extend", "phase", "side", "reflect", "xphase", "inject", "pake", "dup", "third", "replay",
       "early", "early-side", "early-phase"]
PHASES = ["0", "1", "2", "3", "version", "pake", "dilate-0", "zz", "7", "0١", "٠", "1 ", "-1", ""]


@st.composite
def cases(draw, tier="quick"):
    P = {}
    P["mode"] = draw(st.sampled_from(["delegate", "deferred"]))
    P["codemode"] = draw(st.sampled_from([["set", "set"], ["set", "set"], ["alloc", "fromA"], ["set", "input"]]))
    P["sends"] = [[("S%d-%d" % (i, k)).encode() + b"x" * draw(st.sampled_from([0, 0, 5]))
                   for k in range(draw(st.integers(0, 4)))] for i in range(2)]
    P["versions"] = [{"v": "zero"}, {"v": "one"}]
    P["ops"] = draw(st.lists(st.sampled_from(OPS), min_size=0, max_size=4))
    if draw(st.integers(0, 9)) > 0 and not P["ops"]:
        P["ops"] = [draw(st.sampled_from(OPS))]
    P["w_op"] = draw(st.sampled_from([2, 5, 12]))
    n = draw(st.integers(20, 260))
    P["closing_drops"] = draw(st.booleans())   # graceful server closes pass through the WebSocket CLOSING state
    P["tape"] = draw(st.binary(min_size=n, max_size=n))
    return P


def strategy(tier):
    return cases(tier)


class Adversary:
    def __init__(self, P):
        self.ops = list(P["ops"])
        self.w = P["w_op"]
        self.applied = []
        self.marked = set()       # payloads the adversary created or modified
        self.reached = 0
        self.seen = []            # (side, phase, body) seen in flight to anyone
        self.third = None
        self.relabelled = []      # (victim, phase) of genuine peer messages whose side label was rewritten

    def choices(self, rec, tape):
        if not self.ops:
            return []
        return [(self.w, ("adv.custom", lambda tp, rec=rec: self.apply(rec, tp)))]

    def _msgs(self, W):
        out = []
        for vi, svc in enumerate(W.services[:2]):
            c = svc.conn
            if c and c.alive and not c.stopping:
                for j, p in enumerate(c.s2c):
                    try:
                        m = json.loads(p)
                    except Exception:
                        continue
                    if m.get("type") == "message":
                        out.append((vi, c, j, m))
        return out

    def apply(self, rec, tape):
        W = rec.world
        sides = [w._boss._side for w in rec.ws]
        op = self.ops[0]
        cands = self._msgs(W)
        conns = [(vi, svc.conn) for vi, svc in enumerate(W.services[:2])
                 if svc.conn and svc.conn.alive and not svc.conn.stopping]

        def put(c, pos, m):
            p = json.dumps(m).encode()
            self.marked.add(p)
            c.s2c.insert(pos, p)

        def setat(c, j, m):
            p = json.dumps(m).encode()
            self.marked.add(p)
            c.s2c[j] = p
        done = False
        if op in ("flip", "trunc", "extend", "phase", "side", "xphase", "dup") and cands:
            vi, c, j, m = cands[tape.below(len(cands))]
            if op == "flip":
                b = bytearray(binascii.unhexlify(m["body"]))
                if b:
                    b[tape.below(len(b))] ^= 1 << tape.below(8)
                    m["body"] = binascii.hexlify(bytes(b)).decode()
                    setat(c, j, m)
                    done = True
            elif op == "trunc":
                m["body"] = m["body"][: 2 * tape.below(len(m["body"]) // 2 + 1)]
                setat(c, j, m)
                done = True
            elif op == "extend":
                m["body"] = m["body"] + "00" * (1 + tape.below(20))
                setat(c, j, m)
                done = True
            elif op == "phase":
                newp = PHASES[tape.below(len(PHASES))]
                if newp != m["phase"]:
                    m["phase"] = newp
                    setat(c, j, m)
                    done = True
            elif op == "side":
                news = [sides[0], sides[1], "feedface01", m["side"] + "é", sides[vi] + "é"][tape.below(5)]
                if news != m["side"]:
                    if m["side"] == sides[1 - vi]:
                        self.relabelled.append((vi, m["phase"]))
                    m["side"] = news
                    setat(c, j, m)
                    done = True
            elif op == "xphase":
                m2 = dict(m)
                m2["phase"] = PHASES[tape.below(len(PHASES))]
                if m2["phase"] != m["phase"]:
                    put(c, tape.below(len(c.s2c) + 1), m2)
                    done = True
            elif op == "dup":
                p = c.s2c[j]
                self.marked.add(p)
                c.s2c.insert(j + tape.below(len(c.s2c) - j + 1), p)
                done = True
        elif op.startswith("early") and cands:
            # reordering is within the server's power: deliver one of the peer's non-PAKE messages BEFORE
            # the peer's PAKE (it then waits in the client's pre-key queue), optionally re-labelled
            pool = [x for x in cands if x[3].get("phase") != "pake" and x[3].get("side") != sides[x[0]]]
            if pool:
                vi, c, j, m = pool[tape.below(len(pool))]
                idx_pake = [k for k, p in enumerate(c.s2c) if b'"phase": "pake"' in p or b'"phase":"pake"' in p]
                if idx_pake and idx_pake[0] < j:
                    m = dict(m)
                    if op == "early-side":
                        self.relabelled.append((vi, m["phase"]))
                        m["side"] = [sides[vi], "feedface05", m["side"] + "x"][tape.below(3)]
                    elif op == "early-phase":
                        m["phase"] = PHASES[tape.below(len(PHASES))]
                    del c.s2c[j]
                    p = json.dumps(m).encode()
                    if op != "early":
                        self.marked.add(p)
                    c.s2c.insert(idx_pake[0], p)
                    done = True
        elif op == "replay" and conns and self.seen:
            # re-deliver any message seen earlier in the session, unchanged
            vi, c = conns[tape.below(len(conns))]
            theirs = []
            for p in self.seen:
                if p[0] != sides[vi] and p not in theirs:
                    theirs.append(p)
            theirs = theirs or list(self.seen)
            s_, ph, body = theirs[tape.below(len(theirs))]
            put(c, tape.below(len(c.s2c) + 1), {"type": "message", "side": s_, "phase": ph, "body": body, "id": "r"})
            done = True
        elif op == "reflect" and conns:
            vi, c = conns[tape.below(len(conns))]
            own = [p for p in self.seen if p[0] == sides[vi]]
            if own:
                s_, ph, body = own[tape.below(len(own))]
                m2 = {"type": "message", "side": ["feedface02", sides[1 - vi], sides[vi] + "é"][tape.below(3)],
                      "phase": ph, "body": body, "id": "x"}
                put(c, tape.below(len(c.s2c) + 1), m2)
                done = True
        elif op == "inject" and conns:
            vi, c = conns[tape.below(len(conns))]
            body = bytes(tape.byte() for _ in range([0, 10, 60][tape.below(3)]))
            m2 = {"type": "message", "side": [sides[1 - vi], "feedface03"][tape.below(2)],
                  "phase": PHASES[tape.below(len(PHASES))], "body": binascii.hexlify(body).decode(), "id": "y"}
            put(c, tape.below(len(c.s2c) + 1), m2)
            done = True
        elif op == "pake" and conns:
            vi, c = conns[tape.below(len(conns))]
            body = [b"not json", json.dumps({"pake_v1": binascii.hexlify(bytes(tape.byte() for _ in range(33))).decode()}).encode(),
                    json.dumps({"nope": 1}).encode(), json.dumps({"pake_v1": "zz"}).encode(),
                    json.dumps({"pake_v1": 5}).encode()][tape.below(5)]
            m2 = {"type": "message", "side": [sides[1 - vi], "feedface04"][tape.below(2)], "phase": "pake",
                  "body": binascii.hexlify(body).decode(), "id": "z"}
            put(c, tape.below(len(c.s2c) + 1), m2)
            done = True
        elif op == "third":
            # a raw third participant joins the mailbox and adds messages (the real server relays them)
            opened = [c_ for (n_, k_, c_) in W.cmdlog if c_.get("type") == "open"]
            if opened:
                if self.third is None:
                    self.third = mbworld.RawClient(W, rec.P["appids"][0], side="third0side")
                    self.third.cmd("open", mailbox=opened[0]["mailbox"])
                    rec.third = self.third
                seen = self.seen
                if seen and tape.below(2):
                    s_, ph, body = seen[tape.below(len(seen))]
                    ph = [ph, PHASES[tape.below(len(PHASES))]][tape.below(2)]
                else:
                    ph = PHASES[tape.below(len(PHASES))]
                    body = binascii.hexlify(bytes(tape.byte() for _ in range(30))).decode()
                self.third.cmd("add", phase=ph, body=body)
                self.third_added = True
                done = True
        if done:
            self.applied.append(op)
            self.ops.pop(0)
            rec.adv[op] += 1
        else:
            # nothing to apply it to right now; keep it for a later step, but give up eventually
            self.misses = getattr(self, "misses", 0) + 1
            if self.misses > 30:
                self.ops.pop(0)
                self.misses = 0


def run_case(P):
    res = CaseResult()
    adv = Adversary(P)
    twice = []

    def setup(rec):
        W = rec.world
        prev = W.on_deliver

        def on_deliver(c, payload):
            prev(c, payload)
            if payload in adv.marked:
                adv.reached += 1
            try:
                m = json.loads(payload)
            except Exception:
                return
            if m.get("type") == "message":
                if m.get("side") == "third0side":
                    adv.reached += 1
                adv.seen.append((m.get("side"), m.get("phase"), m.get("body")))
        W.on_deliver = on_deliver

    def on_step(rec):
        # enumerated sweep: apply one operation at exactly this step
        if P.get("op_at") is not None and rec.step == P["op_at"] and adv.ops:
            from simworld import Tape
            adv.apply(rec, Tape(P.get("op_tape", b"")))
            adv.misses = 0
            del adv.ops[:]

    def on_idle(rec):
        # apply the operation once everything sent so far has been delivered
        if P.get("op_at") == "idle" and adv.ops:
            from simworld import Tape
            adv.apply(rec, Tape(P.get("op_tape", b"")))
            done = not adv.ops or True
            del adv.ops[:]
            return done
        return False

    rec = mbworld.run(P, setup=setup, on_step=on_step if P.get("op_at") is not None else None, on_idle=on_idle,
                      adversary=adv.choices if P.get("op_at") is None else None)
    res.steps = rec.world.steps
    if not all(s in ("quiescent", "reconnect-loop") for s in rec.settle):
        res.inconclusive = True
    vers = P["versions"]
    for i in range(2):
        got = rec.msgs(i)
        exp = rec.sent[1 - i]
        if got != exp[:len(got)]:
            res.violate("delivered", "receiver %d got %s, peer sent %s; adversary ops %r" % (
                i, common.short(got), common.short(exp), adv.applied),
                input_class="manipulated-or-misordered-message-delivered")
        v = [e[1] for e in rec.evs[i] if e[0] == "versions"]
        if len(v) > 1 and P["mode"] == "delegate":
            res.violate("twice", "receiver %d got versions %d times; ops %r" % (i, len(v), adv.applied),
                        input_class="versions-delivered-twice")
        if v and v[0] != vers[1 - i]:
            res.violate("delivered", "receiver %d got versions %r, peer's are %r; ops %r" % (
                i, v[0], vers[1 - i], adv.applied), input_class="versions-altered")
        vd = rec.verdict[i]
        if vd is not None and not (vd == "happy" or isinstance(vd, Exception)):
            res.violate("closes", "receiver %d closed with non-exception %r" % (i, vd), input_class="odd-verdict")
    ver = [[e[1] for e in rec.evs[i] if e[0] == "verifier"] for i in range(2)]
    if ver[0] and ver[1] and ver[0][0] != ver[1][0]:
        res.violate("delivered", "verifiers differ; ops %r" % (adv.applied,), input_class="verifier-mismatch")
    # a message whose side label was rewritten must be ignored (or scare the client): if its phase was
    # delivered to the application although no copy with the genuine label ever reached that client,
    # the re-labelled copy was accepted
    sides = [w._boss._side for w in rec.ws]
    for (vi, ph) in adv.relabelled:
        genuine = any(j == vi and m.get("type") == "message" and m.get("side") == sides[1 - vi] and m.get("phase") == ph
                      for (j, n, m, st_) in rec.delivered)
        if genuine:
            continue
        got_it = (ph == "version" and any(e[0] == "versions" for e in rec.evs[vi])) or \
                 (ph.isdigit() and ph.isascii() and len(rec.msgs(vi)) > int(ph))
        if got_it:
            res.violate("relabel", "receiver %d delivered phase %r although the only copy it was given carried a "
                        "rewritten side label; ops %r" % (vi, ph, adv.applied), input_class="relabelled-message-accepted")
    if not adv.applied and not res.inconclusive:
        snap = rec.stable_snapshot
        for i in range(2):
            if snap["msgs"][i] != snap["sent"][1 - i] or "versions" not in snap["kinds"][i]:
                res.violate("honest", "unattacked run incomplete on side %d: %r" % (i, snap["kinds"][i]),
                            input_class="honest-run-incomplete")
    outcome = []
    for i in range(2):
        closed_early = [e for e in rec.evs[i] if e[0] == "closed" and e[2] < (rec.close_called[i] or 10 ** 9)]
        outcome.append(mbworld.verdict_name(rec.verdict[i]))
    res.nontrivial = adv.reached >= 1
    res.features = dict(ops=",".join(sorted(set(adv.applied))) or "-", reached=min(adv.reached, 3),
                        out0=outcome[0], out1=outcome[1], mode=P["mode"])
    for op in adv.applied:
        res.notes["op_applied:" + op] += 1
    res.notes["manipulated_messages_delivered"] += adv.reached
    res.trace = mbworld.abstract_trace(rec)
    res.sample = dict(ops_applied=adv.applied, reached=adv.reached, outcome=outcome,
                      received=[common.short(rec.msgs(0)), common.short(rec.msgs(1))], codemode=P["codemode"])
    return res


# ------------------------------------------------------------------ enumerated single-operation sweep
def _sweep_params():
    out = []
    base = dict(mode="delegate", codemode=["set", "set"], versions=[{"v": "zero"}, {"v": "one"}], w_op=1,
                tape=bytes(400), max_steps=400)
    short = [[b"S0-0", b"S0-1", b"S0-2"], [b"S1-0", b"S1-1", b"S1-2"]]
    for op in OPS:
        for at in range(2, 60, 2):
            for var in (b"\x00\x00\x00\x00", b"\x01\x03\x02\x05\x01", b"\x02\x01\x07\x09\x03\x02"):
                out.append(dict(base, sends=short, ops=[op], op_at=at, op_tape=var))
    # long history, then replay / duplicate / cross-phase replay of old messages
    longs = [[("L0-%d" % k).encode() for k in range(40)], [b"L1-0"]]
    for op in ("replay", "dup", "xphase", "reflect"):
        for at in ("idle", 120, 160, 190):
            for var in (b"\x01\x00\x00", b"\x01\x01\x00", b"\x01\x02\x00", b"\x01\x03\x01", b"\x01\x28\x00",
                        b"\x00\x01\x00"):
                out.append(dict(base, sends=longs, ops=[op], op_at=at, op_tape=var, tape=bytes(900), max_steps=900))
    return out


def _sweep_one(P):
    import runner, sys, os
    if not os.environ.get("VERIF_DEBUG") and not getattr(sys.stdout, "_devnull", False):
        sys.stdout = open(os.devnull, "w")
        sys.stdout._devnull = True if False else None
    r, err = runner.run_guarded(__import__("props.c02", fromlist=["x"]), P)
    if err is not None:
        return dict(err=err)
    return dict(viol=[dict(v) for v in r.violations], reached=r.features.get("reached", 0),
                ops=r.features.get("ops"), trace=hash(r.trace) & 0xffffffff,
                sample=r.sample, inconclusive=r.inconclusive)


def extra(tier, seed):
    import multiprocessing as mp
    params = _sweep_params()
    with mp.get_context("fork").Pool(16) as pool:
        outs = pool.map(_sweep_one, params, chunksize=8)
    viol = []
    nt = set()
    errs = [o["err"] for o in outs if "err" in o]
    if errs:
        raise RuntimeError(errs[0])
    samples = []
    for P, o in zip(params, outs):
        for v in o["viol"]:
            vv = dict(v)
            vv["params"] = P
            vv["part"] = "sweep"
            viol.append(vv)
        if o["reached"]:
            nt.add((o["ops"], P["op_at"], P["op_tape"], o["trace"]))
            if len(samples) < 3:
                samples.append(dict(op=P["ops"], at=P["op_at"], outcome=o["sample"]["outcome"]))
    return dict(violations=viol, coverage=dict(
        evaluations=len(params), distinct_nontrivial=len(nt), sweep_cases=len(params), sweep_reached_a_client=len(nt),
        sweep_exhaustive_for="every operation x every even step 2..58 x 3 sub-choice variants of a fixed 3+3 message "
                             "exchange under the FIFO schedule, plus replay/dup/cross-phase/reflect after a 40-message history",
        samples=samples))


def run_part_case(part, P):
    return run_case(P)
