import os
# Mailbox-world scenario driver shared by C01, C02, C03, C08, C09, C14, C18.
# Two real wormhole clients + the real mailbox server in simworld; the
# application's calls ("intents"), server/client deliveries, faults and
# adversarial actions are all interleaved by one tape.
import json, hashlib, collections
from twisted.python import failure
from simworld import World, Tape
from wormhole.errors import WormholeError

MACHINES = "B N M S O K SK R RC L A I C T".split()
EVENT_KINDS = ("welcome", "code", "key", "verifier", "versions", "msg", "closed")


class Delegate:
    def __init__(self, rec, i):
        self.rec, self.i = rec, i

    def _ev(self, kind, val=None):
        self.rec.event(self.i, kind, val)
        self.rec.reenter(self.i, kind)

    def wormhole_got_welcome(self, w): self._ev("welcome", w)
    def wormhole_got_code(self, c): self._ev("code", c)
    def wormhole_got_unverified_key(self, k): self._ev("key", k)
    def wormhole_got_verifier(self, v): self._ev("verifier", v)
    def wormhole_got_versions(self, v): self._ev("versions", v)
    def wormhole_got_message(self, m): self._ev("msg", m)
    def wormhole_closed(self, r): self._ev("closed", r)


def default_params():
    return dict(
        mode="delegate",            # or "deferred"
        appids=["appid", "appid"],
        codemode=["set", "set"],    # set | alloc | input | fromA (use the code A was allocated)
        codes=["7-purple-sausages", "7-purple-sausages"],
        alloc_len=2,
        versions=[{"side": 0}, {"side": 1}],
        sends=[[], []],
        tape=b"",
        drops=0,                    # budget of mailbox connection losses
        dup=False, reorder=False,   # `message` duplication / reordering by the server
        closes=[],                  # [[side, after_event_kind or None]] application close() intents
        reenter=None,               # [side, event_kind, action] action performed inside the callback
        close_twice=False,
        welcome_error=None, welcome_motd=None,
        welcome_error_late=None,    # [k, text]: connections after the k-th are greeted with an error welcome
        inject_error=None,          # side to which a server `error` may be injected
        refuse=[0, 0],              # first N connection attempts refused
        gets="early",               # deferred API: when get_*() are requested: early | late | tape | after (closed)
        third=None,                 # None | "before" | "after": a raw third client claims the nameplate
        hs_fail=[0, 0],             # budget of reconnections whose WebSocket negotiation fails
        get_burst=0,                # Deferred API: that many get_message() calls issued back to back at the end
        gets_lag=False,             # Deferred API: get_message() lags behind the arrivals (see lag_ok)
        w_due=None,                 # scheduling weight of eventual-queue turns (default w_progress)
        w_c2s=None,                 # [w0, w1] scheduling weight of the server reading each client's commands
        w_s2c=None,                 # [w0, w1] scheduling weight of server->client delivery per side (default w_progress)
        wl_cb="wc",                 # what the when_wordlist_is_available() callback does: wc | close | send
        get_in_close_cb=False,      # Deferred API: every get_*() is requested again from the callback of close()
        dilate=[False, False],      # the side also calls w.dilate(): dilate-N records share the mailbox
        hs_fail_first=[False, False],   # the first connection's WebSocket negotiation may fail (a scheduler event)
        hs_slow=[False, False],     # TCP connection and WebSocket negotiation are separate scheduler events
        re_refuse=[0, 0],           # budget of reconnection attempts that fail at the TCP level (server unreachable)
        extra_msg_gets=0,           # deferred API: additional concurrently outstanding get_message() chains
        w_progress=10, w_app=6, w_drop=1, w_adv=2,
        settle_after_close=True,
    )


class Rec:
    """everything observed during one case"""
    def __init__(self, P):
        self.P = P
        self.step = 0
        self.evs = [[], []]               # per side: (kind, value, step)
        self.sent = [[], []]              # send_message arguments issued so far
        self.close_called = [None, None]  # step at which the application called close()
        self.close_results = [[], []]     # results of close() Deferreds (deferred mode)
        self.close_d = [[], []]
        self.api_exc = []                 # (intent, exception) escaping an API call
        self.escaped = []                 # exceptions escaping a world event
        self.trans = [[], []]             # (machine, old, input, new)
        self.trans_at_close = [None, None]
        self.states_at_close = [None, None]
        self.adv = collections.Counter()  # adversarial operations applied
        self.drops = 0
        self.drop_states = []
        self.inflight_at_drop = 0
        self.pending_at_drop = 0
        self.gets = [collections.defaultdict(list), collections.defaultdict(list)]
        self.settle = []
        self.codes_seen = [None, None]
        self.world = None
        self.ws = []
        self.errors = []
        self.verdict = [None, None]
        self.triggers = [[], []]          # (step, kind) of things that may decide the verdict
        self.on_step = None
        self.reentered = False
        self.helper = [None, None]
        self.get_after_closed = [[], []]
        self.third = None
        self.xops = collections.Counter()
        self.delivered = []               # (side index, conn#, server message, step) as delivered to clients
        self.error_injected = None
        self.phase = "tape"
        self.stable_snapshot = None

    def event(self, i, kind, val=None):
        self.evs[i].append((kind, val, self.step))
        if kind == "code":
            self.codes_seen[i] = val

    def kinds(self, i):
        return [e[0] for e in self.evs[i]]

    def has(self, i, kind):
        return any(e[0] == kind for e in self.evs[i])

    def msgs(self, i):
        return [e[1] for e in self.evs[i] if e[0] == "msg"]

    def reenter(self, i, kind):
        r = self.P.get("reenter")
        if r and not self.reentered and r[0] == i and r[1] == kind:
            self.reentered = True
            act = r[2]
            try:
                if act == "close":
                    self.do_close(i)
                elif act == "send":
                    m = b"reentrant"
                    self.ws[i].send_message(m)
                    self.sent[i].append(m)
                elif act == "derive":
                    self.ws[i].derive_key("purpose", 16)
            except Exception as ex:
                self.api_exc.append((("reenter", i, kind, act), ex))

    def machine_states(self, i):
        b = self.ws[i]._boss
        out = {}
        for name, m in (("B", b), ("N", b._N), ("M", b._M), ("T", b._T), ("RC", b._RC), ("K", b._K),
                        ("R", b._R), ("S", b._S), ("O", b._O), ("C", b._C), ("A", b._A), ("L", b._L),
                        ("I", b._I)):
            st = None
            try:
                st = m._state.name if hasattr(m, "_state") else None   # automat >= 22 typed
            except Exception:
                pass
            out[name] = st
        return out

    def last_state(self, i, machine):
        for t in reversed(self.trans[i]):
            if t[0] == machine:
                return t[3]
        return None

    def do_close(self, i):
        first = self.close_called[i] is None
        if first:
            self.close_called[i] = self.step
            self.trans_at_close[i] = len(self.trans[i])
            self.states_at_close[i] = {m: self.last_state(i, m) for m in ("N", "M", "T", "B", "RC", "A", "K")}
            self.triggers[i].append((self.step, "close"))
        r = self.ws[i].close()
        if r is not None:
            self.close_d[i].append(r)
            r.addBoth(lambda x, i=i: self.close_results[i].append(x))
            if first and self.P.get("get_in_close_cb") and side_mode(self.P, i) == "deferred":
                # an application that asks for everything again from the callback of close() itself
                def again(x, i=i):
                    for g in ("welcome", "code", "key", "verifier", "versions", "msg"):
                        _request_get(self, i, g)
                    return x
                r.addBoth(again)


def _tracer(rec, i, machine):
    def tr(old_state, input, new_state):
        rec.trans[i].append((machine, old_state, input, new_state, rec.step))
        return None
    return tr


def _install_trace(rec, i, w):
    b = w._boss
    names = {"B": b, "N": b._N, "M": b._M, "S": b._S, "O": b._O, "K": b._K, "SK": b._K._SK, "R": b._R,
             "RC": b._RC, "L": b._L, "A": b._A, "I": b._I, "C": b._C, "T": b._T}
    for m in MACHINES:
        names[m].set_trace(_tracer(rec, i, m))


def entropy_key(P):
    h = hashlib.sha256()
    h.update(bytes(P.get("tape", b"")))
    h.update(json.dumps([P.get("codes"), P.get("codemode"), P.get("mode"), P.get("closes")],
                        sort_keys=True, default=str).encode())
    return h.digest()


def _request_get(rec, i, what):
    w = rec.ws[i]
    fn = {"welcome": w.get_welcome, "code": w.get_code, "key": w.get_unverified_key,
          "verifier": w.get_verifier, "versions": w.get_versions, "msg": w.get_message}[what]
    closed_before = rec.has(i, "closed") or bool(rec.close_results[i])
    try:
        d = fn()
    except Exception as ex:
        rec.api_exc.append((("get", i, what), ex))
        return
    entry = dict(what=what, step=rec.step, result=None, after_closed=closed_before)
    rec.gets[i][what].append(entry)

    def ok(v):
        entry["result"] = ("ok", v, rec.step)
        rec.event(i, what, v)
        if what == "msg" and rec.P.get("gets") != "manual":
            _request_get(rec, i, "msg")
        return None

    def bad(f):
        entry["result"] = ("err", f.value, rec.step)
        return None
    d.addCallbacks(ok, bad)


class RawClient:
    """a third mailbox participant speaking the server protocol directly"""
    def __init__(self, world, appid, side="third0side"):
        from simworld import MailConn

        class _Svc:
            pass
        svc = _Svc()
        svc.name = "x%d" % len(world.services)
        svc.rc = None
        svc.conn = None
        svc.started = False
        svc.refuse = 0
        self.svc = svc
        self.world = world
        self.side = side
        self.appid = appid
        self.rx = []
        conn = MailConn.__new__(MailConn)
        conn.world, conn.svc, conn.n = world, svc, 1
        conn.c2s, conn.s2c = [], []
        conn.alive = True
        conn.in_rx = False
        conn.stopping = False
        conn.client_gone = False
        conn.processed = []
        from simworld import SrvConn
        conn.srv = SrvConn(world, conn)
        conn.cli = None
        self.conn = conn
        conn.srv.onOpen()
        self.cmd("bind", appid=appid, side=side)

    def cmd(self, type_, **kw):
        kw["type"] = type_
        kw["id"] = "x%d" % len(self.conn.processed)
        payload = json.dumps(kw).encode()
        self.conn.processed.append(kw)
        self.world.cmdlog.append((self.svc.name, 1, kw))
        try:
            self.conn.srv.onMessage(payload, False)
        except Exception:
            self.world.srv_exceptions += 1
        self.rx.extend(json.loads(m) for m in self.conn.s2c)
        del self.conn.s2c[:]

    def close(self):
        if self.conn.alive:
            self.conn.alive = False
            self.conn.srv.onClose(True, 1000, "")


def run(P, on_step=None, setup=None, at_stable=None, adversary=None, on_idle=None):
    """run one mailbox-world case; returns Rec.  `setup(rec)` may install extra
    things (MITM etc.) after the clients exist; `on_step(rec)` runs after every step."""
    P = dict(default_params(), **P)
    rec = Rec(P)
    W = World(entropy_key(P), welcome_motd=P["welcome_motd"], welcome_error=P["welcome_error"])
    if P.get("welcome_error_late"):
        W.late_welcome = tuple(P["welcome_error_late"])
    W.clean_drops = bool(P.get("clean_drops", True))       # some connection losses are graceful closes (code 1000)
    W.raw_utf8 = bool(P.get("raw_utf8", False))            # the server sends non-ASCII text as raw UTF-8 JSON
    W.closing_drops = bool(P.get("closing_drops", False))  # ... through a window in which the WebSocket is CLOSING (sendMessage raises)
    rec.world = W
    tape = Tape(P["tape"])
    try:
        _run(P, rec, W, tape, on_step, setup, at_stable, adversary, on_idle)
    finally:
        W.close()
    rec.errors = W.error_summaries()
    return rec


def side_mode(P, i):
    """API style of side i: P["modes"] = [styleA, styleB] overrides the common P["mode"]"""
    ms = P.get("modes")
    return ms[i] if ms else P.get("mode")


def _settle(W, P, max_steps=None):
    """stabilisation; with a dilated side the keep-alive timer never stops, so virtual time is bounded and
    'only timers beyond the bound remain' counts as quiescent"""
    if any(d_ and side_mode(P, i_) == "deferred" for i_, d_ in enumerate(P.get("dilate") or [])):
        st = W.settle(max_steps=max_steps or P.get("settle_steps", 1500), max_time=5.0)
        return "quiescent" if st == "time" else st
    return W.settle(max_steps=max_steps or P.get("settle_steps", 1500))


def _run(P, rec, W, tape, on_step, setup, at_stable, adversary=None, on_idle=None):
    mode = P["mode"]
    modes = [side_mode(P, 0), side_mode(P, 1)]
    if "deferred" in modes:
        mode = "deferred"          # (per-side tests below use modes[i])
    ws = rec.ws
    for i in range(2):
        kw = dict(versions=P["versions"][i])
        if P["dilate"][i]:
            kw["dilation"] = True
        if modes[i] == "delegate":
            kw["delegate"] = Delegate(rec, i)
        w = W.create(P["appids"][i], **kw)
        w._sim_svc.refuse = P["refuse"][i]
        w._sim_svc.hs_fail = P["hs_fail"][i]
        w._sim_svc.hs_slow = P["hs_slow"][i]
        w._sim_svc.re_refuse = (P.get("re_refuse") or [0, 0])[i]
        w._sim_svc.hs_fail_first = P["hs_fail_first"][i]
        ws.append(w)
        _install_trace(rec, i, w)
    def on_deliver(c, payload):
        try:
            msg = json.loads(payload)
        except Exception:
            return
        if msg.get("type") == "ack":
            return
        i = W.services.index(c.svc) if c.svc in W.services else None
        rec.delivered.append((i, c.n, msg, rec.step))
    W.on_deliver = on_deliver
    if setup is not None:
        setup(rec)
    gets_pending = [[], []]
    if mode == "deferred":
        for i in range(2):
            if modes[i] != "deferred":
                continue
            allg = ["welcome", "code", "key", "verifier", "versions", "msg"]
            if P["gets"] == "early":
                for g in allg:
                    _request_get(rec, i, g)
            else:
                gets_pending[i] = allg
                if P["codemode"][i] == "alloc":
                    # the application has to learn the code to pass it to the peer
                    gets_pending[i].remove("code")
                    _request_get(rec, i, "code")

    # ---- intents
    intents = []
    for i in range(2):
        cm = P["codemode"][i]
        if cm == "set":
            intents.append(("setcode", i))
        elif cm == "alloc":
            intents.append(("alloc", i))
        elif cm == "fromA":
            intents.append(("fromA", i))
        elif cm == "input":
            intents.append(("input", i))
        for k in range(len(P["sends"][i])):
            intents.append(("send", i, k))
    for i in range(2):
        if P["dilate"][i] and modes[i] == "deferred":      # (the delegated API has no dilate())
            intents.append(("dilate", i))
    for c in P["closes"]:
        intents.append(("close", c[0], c[1]))
    third = None
    if P["third"]:
        intents.append(("third",))
    if mode == "deferred":
        for i in range(2):
            if modes[i] != "deferred":
                continue
            for n_ in range(P["extra_msg_gets"]):
                intents.append(("get", i, "msg", n_))
    for n_, (side_, op_) in enumerate(P.get("extra_ops") or []):
        intents.append(("xop", side_, op_, n_))
    nsent = [0, 0]
    input_stage = [0, 0]
    drops_left = [P["drops"]]
    err_inject_left = [1 if P["inject_error"] is not None else 0]

    def code_for(i):
        cm = P["codemode"][i]
        if cm in ("fromA", "input") and P["codemode"][1 - i] == "alloc":
            c = rec.codes_seen[1 - i]
            if c is None:
                return None
            sfx = P.get("code_suffix", [None, None])[i]
            return c if not sfx else c + sfx
        return P["codes"][i]

    def lag_ok(i):
        """a reader that lags behind: get_message() is called only when that leaves at most one request waiting
        beyond the application messages already delivered to this side (so reads find buffered messages, and a
        second, pipelined read waits for the next arrival)"""
        my_side = ws[i]._boss._side
        n_del = len({m.get("phase") for (j, n_, m, st_) in rec.delivered
                     if j == i and m.get("type") == "message" and m.get("side") != my_side and str(m.get("phase")).isdigit()})
        return len(rec.gets[i]["msg"]) <= n_del and n_del > 0

    def intent_enabled(it):
        k = it[0]
        if k in ("setcode", "alloc", "fromA", "input"):
            if rec.close_called[it[1]] is not None:
                return False           # code entry after close(): not a legal order (tallied elsewhere)
            if k in ("fromA", "input") and code_for(it[1]) is None:
                return False
            return True
        if k == "input2" or k == "input3":
            return rec.close_called[it[1]] is None
        if k == "send":
            return nsent[it[1]] == it[2]
        if k == "dilate":
            return rec.close_called[it[1]] is None
        if k == "close":
            if it[2] == "halfopen":
                # while the WebSocket negotiation of a connection of this side is in flight
                c_ = ws[it[1]]._sim_svc.conn
                return c_ is not None and getattr(c_, "half_open", False)
            if it[2] is not None and not rec.has(it[1], it[2]):
                return False
            return True
        if k == "get":
            if P.get("gets_lag") and it[2] == "msg":
                return lag_ok(it[1])
            return True
        if k == "xop":
            if it[2] in ("refresh", "npc", "wc", "np_again", "words_again", "wl"):
                return rec.helper[it[1]] is not None
            if it[2] in ("code_again", "alloc_again"):
                return rec.close_called[it[1]] is None
            return True
        if k == "third":
            if P["third"] == "before":
                return True
            return rec.has(0, "code") and rec.has(1, "code")
        return True

    def do_intent(it):
        k = it[0]
        intents.remove(it)
        try:
            if k == "setcode":
                ws[it[1]].set_code(P["codes"][it[1]])
            elif k == "alloc":
                ws[it[1]].allocate_code(P["alloc_len"])
            elif k == "fromA":
                ws[it[1]].set_code(code_for(it[1]))
            elif k == "input":
                rec.helper[it[1]] = ws[it[1]].input_code()
                intents.append(("input2", it[1]))
            elif k == "input2":
                code = code_for(it[1])
                np_, _, words = code.partition("-")
                h = rec.helper[it[1]]
                if P.get("input_refresh"):
                    h.refresh_nameplates()
                h.choose_nameplate(np_)
                intents.append(("input3", it[1]))
            elif k == "input3":
                code = code_for(it[1])
                np_, _, words = code.partition("-")
                rec.helper[it[1]].choose_words(words)
            elif k == "send":
                m = P["sends"][it[1]][it[2]]
                nsent[it[1]] += 1
                ws[it[1]].send_message(m)
                rec.sent[it[1]].append(m)
            elif k == "dilate":
                rec.dilated = getattr(rec, "dilated", {})
                rec.dilated[it[1]] = ws[it[1]].dilate(no_listen=bool(P.get("dilate_no_listen")))
            elif k == "close":
                rec.do_close(it[1])
                if P["close_twice"]:
                    intents.append(("close", it[1], None)) if ("close", it[1], None) not in intents else None
            elif k == "get":
                _request_get(rec, it[1], it[2])
            elif k == "xop":
                i_, op = it[1], it[2]
                h = rec.helper[i_]
                rec.xops[op] += 1
                if op == "derive":
                    ws[i_].derive_key("purpose", 16)
                elif op == "refresh":
                    h.refresh_nameplates()
                elif op == "npc":
                    h.get_nameplate_completions("")
                elif op == "wc":
                    h.get_word_completions("pu")
                elif op == "wl":
                    d_ = h.when_wordlist_is_available()

                    def on_wordlist(x, h=h, i_=i_):
                        # a front end that asks for completions the moment the wordlist is announced
                        try:
                            act = rec.P.get("wl_cb", "wc")
                            if act == "close":
                                rec.do_close(i_)
                            elif act == "send":
                                ws[i_].send_message(b"from-wordlist-callback")
                            else:
                                h.get_word_completions("pu")
                        except Exception as ex:
                            from wormhole.errors import WormholeError
                            if not isinstance(ex, WormholeError):
                                rec.api_exc.append((("xop", i_, "wc-in-wordlist-callback"), ex))
                        return x
                    if d_ is not None:
                        d_.addCallback(on_wordlist)
                elif op == "np_again":
                    h.choose_nameplate("9")
                elif op == "words_again":
                    h.choose_words("purple-sausages")
                elif op == "code_again":
                    ws[i_].set_code("9-again-again")
                elif op == "alloc_again":
                    ws[i_].allocate_code(2)
                elif op == "send":
                    m = b"xop-%d" % it[3]
                    ws[i_].send_message(m)
                    rec.sent[i_].append(m)
                elif op == "close":
                    rec.do_close(i_)
            elif k == "third":
                nonlocal third
                np_ = P["codes"][0].split("-")[0]
                third = RawClient(W, P["appids"][0])
                third.cmd("claim", nameplate=np_)
                rec.third = third
        except Exception as ex:
            rec.api_exc.append((it, ex))

    def adversary_choices():
        out = []
        if P["dup"] or P["reorder"]:
            for svc in W.services:
                c = svc.conn
                if c and c.alive and not c.stopping:
                    idx = [j for j, p in enumerate(c.s2c) if b'"type": "message"' in p or b'"type":"message"' in p]
                    if idx and P["dup"]:
                        out.append((P["w_adv"], ("adv.dup", c, idx)))
                    if len(idx) >= 2 and P["reorder"]:
                        out.append((P["w_adv"], ("adv.swap", c, idx)))
        if err_inject_left[0] > 0:
            svc = W.services[P["inject_error"]]
            c = svc.conn
            if c and c.alive and not c.stopping and c.processed:
                out.append((1, ("adv.error", c)))
        return out

    def do_adv(e):
        k = e[0]
        c = e[1]
        if k == "adv.dup":
            j = tape.choice(e[2])
            pos = j + tape.below(len(c.s2c) - j + 1)
            c.s2c.insert(pos, c.s2c[j])
            rec.adv["dup"] += 1
        elif k == "adv.swap":
            idx = e[2]
            a = tape.below(len(idx))
            b = tape.below(len(idx) - 1)
            if b >= a:
                b += 1
            j, k2 = idx[a], idx[b]
            c.s2c[j], c.s2c[k2] = c.s2c[k2], c.s2c[j]
            rec.adv["swap"] += 1
        elif k == "adv.error":
            err_inject_left[0] -= 1
            orig = c.processed[-1]
            c.s2c.append(json.dumps({"type": "error", "error": "injected", "orig": orig,
                                     "server_tx": 1.0}).encode())
            rec.adv["error"] += 1
            rec.error_injected = (P["inject_error"], rec.step)

    def note_drop(c):
        rec.drops += 1
        i = W.services.index(c.svc) if c.svc in W.services else None
        if i is not None and i < 2:
            inflight = len(c.c2s) + len(c.s2c)
            if inflight:
                rec.inflight_at_drop += 1
            try:
                if ws[i]._boss._M._pending_outbound:
                    rec.pending_at_drop += 1
            except Exception:
                pass
            rec.drop_states.append((i, rec.last_state(i, "N"), rec.last_state(i, "M"), rec.last_state(i, "A")))

    # ---- tape-driven phase
    max_steps = P.get("max_steps", 600)
    while not tape.exhausted() and rec.step < max_steps:
        rec.step += 1
        choices = []
        for e in W.enabled(mailbox_faults=True):
            if e[0] == "mb.drop":
                if drops_left[0] > 0:
                    choices.append((P["w_drop"], e))
            elif e[0] == "mb.hsfail":
                choices.append((P["w_drop"] + 2, e))
            elif e[0] == "mb.refuse":
                # an outage: reconnection attempts fail one after the other
                choices.append((P.get("w_refuse") or 30, e))
            elif e[0] == "clock.due" and P.get("w_due"):
                # a busy reactor: eventual-send turns (callLater(0)) run late relative to network events
                choices.append((P["w_due"], e))
            elif e[0] == "mb.c2s" and P.get("w_c2s") and e[1].svc in W.services[:2]:
                # a server that reads this client's commands slowly: more of them are in flight when the connection drops
                choices.append((P["w_c2s"][W.services.index(e[1].svc)], e))
            elif e[0] == "mb.s2c" and P.get("w_s2c") and e[1].svc in W.services[:2]:
                # a slow reader: its inbound queue builds up (and is then duplicated / reordered as a whole)
                choices.append((P["w_s2c"][W.services.index(e[1].svc)], e))
            else:
                choices.append((P["w_progress"], e))
        for it in intents:
            if intent_enabled(it):
                choices.append((P["w_app"], ("app", it)))
        if mode == "deferred" and P["gets"] == "tape":
            for i in range(2):
                for g in gets_pending[i]:
                    if g == "msg" and P.get("gets_lag") and not lag_ok(i):
                        continue
                    choices.append((2, ("app", ("get", i, g))))
        choices.extend(adversary_choices())
        if adversary is not None:
            choices.extend(adversary(rec, tape))
        if not choices:
            nt = W.next_timer()
            if nt is None:
                if on_idle is not None and on_idle(rec):
                    continue
                break
            W.clock.advance(nt - W.clock.seconds())
            continue
        e = tape.weighted(choices)
        try:
            if e[0] == "app":
                it = e[1]
                if it[0] == "get" and len(it) == 3:
                    # one of the six base get_*() requests of the "tape" mode
                    gets_pending[it[1]].remove(it[2])
                    _request_get(rec, it[1], it[2])
                else:
                    do_intent(it)       # (extra pipelined get_message() requests are ordinary intents)
            elif e[0] == "adv.custom":
                e[1](tape)
            elif e[0].startswith("adv."):
                do_adv(e)
            else:
                if e[0] == "mb.drop":
                    drops_left[0] -= 1
                    note_drop(e[1])
                if e[0] == "mb.hsfail":
                    rec.adv["hsfail"] += 1
                W.do(e, W.arg_for(e, tape))
        except Exception as ex:
            rec.escaped.append((e[0], ex, failure.Failure()))
        if on_step is not None:
            on_step(rec)

    # ---- stabilisation: issue the remaining intents (except close), no more faults
    rec.phase = "stabilise"

    def flush():
        progress = True
        while progress:
            progress = False
            for it in list(intents):
                if it[0] in ("close", "third"):
                    continue
                if not intent_enabled(it):
                    if it[0] in ("setcode", "alloc", "fromA", "input", "input2", "input3") and \
                            rec.close_called[it[1]] is not None:
                        intents.remove(it)
                    continue
                rec.step += 1
                do_intent(it)
                progress = True
            st = _settle(W, P)
            rec.settle.append(st)
            if on_step is not None:
                on_step(rec)
    flush()
    flush()
    if mode == "deferred" and P["gets"] != "after":
        for i in range(2):
            if modes[i] != "deferred":
                continue
            for g in list(gets_pending[i]):
                gets_pending[i].remove(g)
                _request_get(rec, i, g)
            # a reader that asks for a whole batch of messages in one go (all requests in one reactor turn)
            for _ in range(P.get("get_burst") or 0):
                _request_get(rec, i, "msg")
        rec.settle.append(_settle(W, P))
    rec.stable_snapshot = dict(
        kinds=[rec.kinds(0), rec.kinds(1)],
        msgs=[rec.msgs(0), rec.msgs(1)],
        sent=[list(rec.sent[0]), list(rec.sent[1])],
        closed=[rec.close_called[0] is not None or rec.has(0, "closed") or bool(rec.close_results[0]),
                rec.close_called[1] is not None or rec.has(1, "closed") or bool(rec.close_results[1])],
    )
    if at_stable is not None:
        at_stable(rec)

    # ---- close everything still open
    rec.phase = "close"
    for i in range(2):
        if rec.close_called[i] is None:
            rec.step += 1
            try:
                rec.do_close(i)
            except Exception as ex:
                rec.api_exc.append((("final-close", i), ex))
    if third is not None:
        third.close()
    rec.settle.append(_settle(W, P))
    if on_step is not None:
        on_step(rec)
    if mode == "deferred" and P.get("get_after_closed"):
        for i in range(2):
            if modes[i] != "deferred":
                continue
            for g in ["welcome", "code", "key", "verifier", "versions", "msg"]:
                _request_get(rec, i, g)
        rec.settle.append(_settle(W, P, 1000))
    for i in range(2):
        if modes[i] == "delegate":
            cl = [e for e in rec.evs[i] if e[0] == "closed"]
            rec.verdict[i] = cl[0][1] if cl else None
        else:
            r = rec.close_results[i][0] if rec.close_results[i] else None
            if isinstance(r, failure.Failure):
                r = r.value
            rec.verdict[i] = r


def abstract_trace(rec):
    """event kinds only (no payloads) for distinctness hashing"""
    return ",".join(rec.world.trace[:400]) + "|" + "/".join(",".join(rec.kinds(i)) for i in range(2))


def verdict_name(v):
    if v == "happy":
        return "happy"
    if v is None:
        return "none"
    return type(v).__name__


def common_errlog_violations(rec, res, clause="errlog"):
    for (exc, frame, msg) in rec.errors:
        res.violate(clause, "%s at %s: %s" % (exc, frame, msg), input_class="error-log", exc=exc, frame=frame)
