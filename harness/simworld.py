# Deterministic simulated world for magic-wormhole (DESIGN.md section 2.1).
#
# Real code that runs inside it: the wormhole package from /repo/src, the real
# wormhole_mailbox_server protocol object + sqlite database, real Transit, real
# Dilation.  Simulated: the WebSocket/ClientService layer (whole JSON messages),
# TCP (byte queues), the clock, entropy.
import sys, os, json, gc, hashlib, struct
from unittest import mock
from zope.interface import implementer
from twisted.internet.task import Clock
from twisted.internet import defer, interfaces, address, error
from twisted.python import log, failure
from twisted.protocols import policies

try:
    import noise.connection  # noqa: F401  real noiseprotocol, if present
except ImportError:
    sys.path.insert(0, os.path.join(os.path.dirname(os.path.abspath(__file__)), "shim"))
    import noise.connection  # noqa: F401  /verif shim

import wormhole
from wormhole import _rendezvous, ipaddrs, transit
from wormhole.eventual import EventualQueue
from wormhole_mailbox_server.database import create_channel_db, create_usage_db
from wormhole_mailbox_server.server import make_server
from wormhole_mailbox_server import server_websocket
from wormhole_mailbox_server.server_websocket import WebSocketServer


def _quiet_twisted_logging():
    # errors are collected per world (World.errors); nothing is printed
    if getattr(log, 'defaultObserver', None) is not None:
        log.defaultObserver.stop()
        log.defaultObserver = None
    try:
        from twisted.logger import globalLogBeginner
        globalLogBeginner.beginLoggingTo([lambda e: None], redirectStandardIO=False, discardBuffer=True)
    except Exception:
        pass


_quiet_twisted_logging()


class DRBG:
    """SHA-256 counter generator standing in for os.urandom, keyed per case."""
    def __init__(self, key):
        self.key = key
        self.n = 0

    def __call__(self, size):
        out = b""
        while len(out) < size:
            out += hashlib.sha256(self.key + struct.pack(">Q", self.n)).digest()
            self.n += 1
        return out[:size]


class SimClock(Clock):
    """task.Clock that, like a real reactor, logs an exception raised by a delayed call and carries on"""
    def advance(self, amount):
        self.rightNow += amount
        self._sortCalls()
        while self.calls and self.calls[0].getTime() <= self.seconds():
            call = self.calls.pop(0)
            call.called = 1
            try:
                call.func(*call.args, **call.kw)
            except Exception:
                log.err(None, "exception in delayed call")
            self._sortCalls()


class Tape:
    """Finite tape of scheduler choices.  Exhausted tape yields 0 (= first,
    i.e. the boring FIFO choice), so shrinking moves toward the plain schedule."""
    def __init__(self, data=b""):
        self.d = bytes(data)
        self.i = 0

    def exhausted(self):
        return self.i >= len(self.d)

    def byte(self):
        if self.i < len(self.d):
            b = self.d[self.i]
            self.i += 1
            return b
        return 0

    def below(self, n):
        if n <= 1:
            return 0
        if n <= 256:
            return self.byte() % n
        return ((self.byte() << 8) | self.byte()) % n

    def chance(self, num, den=256):
        """true with probability num/den; exhausted tape => False"""
        if self.exhausted():
            return False
        return self.byte() % den < num

    def weighted(self, choices):
        """choices: list of (weight, item); returns item"""
        tot = sum(w for w, _ in choices)
        r = self.below(tot)
        for w, e in choices:
            if r < w:
                return e
            r -= w
        return choices[-1][1]

    def choice(self, seq):
        return seq[self.below(len(seq))]


# ------------------------------------------------------------------ mailbox
class _F:
    pass


class SrvConn(WebSocketServer):
    def __init__(self, world, conn):
        WebSocketServer.__init__(self)
        self.world, self.conn = world, conn
        self.factory = _F()
        self.factory._server = world.server
        self.factory.reactor = world.clock
        self._peer_addr_port = ("ipv4", "10.1.1.1", 1)

    def sendMessage(self, payload, isBinary=False):
        if getattr(self.world, "raw_utf8", False):
            # a server whose JSON encoder does not \u-escape non-ASCII text: the same JSON value, raw UTF-8 bytes
            try:
                payload = json.dumps(json.loads(payload), ensure_ascii=False).encode("utf-8")
            except Exception:
                pass
        if self.conn.alive:
            self.conn.s2c.append(payload)
            m = json.loads(payload)
            self.world.srvlog.append((self.conn.svc.name, self.conn.n, m))


class CliProto(_rendezvous.WSClient):
    def __init__(self, conn, rc):
        super().__init__()
        self._RC = rc
        self.conn = conn

    def sendMessage(self, payload, isBinary=False):
        if getattr(self.conn, "ws_closing", False) and self.conn.alive:
            # autobahn: WebSocketProtocol.sendMessage() in STATE_CLOSING (the server's Close frame was answered,
            # the TCP connection is not down yet) raises Disconnected
            from autobahn.exception import Disconnected
            self.conn.world.closing_sends = getattr(self.conn.world, "closing_sends", 0) + 1
            raise Disconnected("Attempt to send on a closed protocol")
        if self.conn.alive and not self.conn.client_gone:
            self.conn.c2s.append(payload)
            self.conn.world.cmdlog.append((self.conn.svc.name, self.conn.n, json.loads(payload)))


class MailConn:
    def __init__(self, world, svc, n):
        self.world, self.svc, self.n = world, svc, n
        self.c2s, self.s2c = [], []
        self.alive = True
        self.in_rx = False
        self.stopping = False
        self.client_gone = False
        self.processed = []        # commands the server has processed on this connection
        self.srv = SrvConn(world, self)
        self.cli = CliProto(self, svc.rc)


class FakeService:
    """stands in for twisted.application.internet.ClientService"""
    def __init__(self, world, ep, f, retryPolicy=None, clock=None, prepareConnection=None, **kw):
        self.world, self.rc = world, f._RC
        self.retry_policy = retryPolicy   # called with the number of consecutive failed attempts, as ClientService does
        self.failed_attempts = 0
        self.dead = False                 # the retry policy raised: ClientService never schedules another attempt
        self.re_refuse = 0                # budget of RE-connection attempts that fail at the TCP level (server unreachable)
        self.started = False
        self.conn = None
        self.nconn = 0
        self.stop_d = None
        self.when = []
        self.refuse = 0            # number of connection attempts to refuse first
        self.failures = 0
        self.hs_fail = 0            # budget of failed WebSocket negotiations on RE-connections
        self.hs_failed = 0
        self.hs_fail_first = False  # the first connection's WebSocket negotiation may fail
        self.hs_slow = False        # the TCP connection and the WebSocket negotiation are separate events
        self._finishing = None      # list of stop waiters while a connection-lost notification runs
        self.name = "c%d" % len(world.services)
        world.services.append(self)

    def whenConnected(self, failAfterFailures=None):
        d = defer.Deferred()
        self.when.append((d, failAfterFailures))
        return d

    def startService(self):
        self.started = True

    def stopService(self):
        self.started = False
        # ClientService.stopService: waiters errback with CancelledError
        for d, _ in self.when:
            if not d.called:
                d.errback(failure.Failure(defer.CancelledError()))
        self.when = []
        c = self.conn
        if self._finishing is not None:
            # ClientService is "disconnecting": the protocol's connectionLost is running; stop waiters
            # fire once it returns, in the order they were registered
            d = defer.Deferred()
            self._finishing.append(d)
            return d
        if c is None or not c.alive:
            return defer.succeed(None)
        c.stopping = True
        if not c.in_rx:
            del c.s2c[:]          # TCP: reading stops at loseConnection
        self.stop_d = defer.Deferred()
        return self.stop_d


# ------------------------------------------------------------------ network
class SimPort:
    def __init__(self, net, node, portnum, factory):
        self.net, self.node, self.portnum, self.factory = net, node, portnum, factory
        self.listening = True

    def startListening(self):
        pass

    def stopListening(self):
        self.listening = False
        if self.net.ports.get(self.portnum) is self:
            del self.net.ports[self.portnum]
        return defer.succeed(None)

    def getHost(self):
        return address.IPv4Address("TCP", self.node.address, self.portnum)


class SimConnector:
    def __init__(self, net, node, host, port, factory):
        self.net, self.node, self.host, self.port, self.factory = net, node, host, port, factory
        self.seq = net.next_seq()

    def stopConnecting(self):
        if self in self.net.pending:
            self.net.pending.remove(self)
            self.factory.clientConnectionFailed(self, failure.Failure(error.UserError()))

    def disconnect(self):
        self.stopConnecting()

    def getDestination(self):
        return address.IPv4Address("TCP", self.host, self.port)


@implementer(interfaces.ITransport, interfaces.IConsumer, interfaces.IPushProducer)
class SimTransport:
    def __init__(self, link, owner, host, peer):
        self.link, self.owner = link, owner
        self.outq = bytearray()
        self.closing = False       # loseConnection() called locally
        self.lost = False          # connectionLost delivered locally
        self.eof_pending = False   # peer finished closing; deliver remaining bytes then lose
        self.broken = False
        self.read_paused = False
        self.producer = None
        self.streaming = None
        self.producer_paused = False
        self.bufsize = link.net.bufsize
        self.protocol = None
        self._host, self._peer = host, peer
        self.disconnecting = False
        self.blackhole = False     # bytes we send are never delivered (but link stays up)
        self.sent_total = 0        # bytes ever written
        self.delivered_total = 0   # bytes of ours delivered to the peer
        self.tamper = None         # optional fn(data, offset) -> data applied at delivery
        self.read_pause_log = []
        self.wlog = bytearray()    # first 4 KiB ever written on this end

    def write(self, data):
        assert isinstance(data, bytes), type(data)
        if self.closing or self.lost or not data:
            return
        if self.broken:
            return
        self.outq += data
        self.sent_total += len(data)
        if len(self.wlog) < 4096:
            self.wlog += data[:4096 - len(self.wlog)]
        if self.producer and self.streaming and not self.producer_paused and len(self.outq) > self.bufsize:
            self.producer_paused = True
            self.producer.pauseProducing()

    def writeSequence(self, seq):
        self.write(b"".join(seq))

    def loseConnection(self):
        if self.closing or self.lost:
            return
        self.closing = True
        self.disconnecting = True

    def abortConnection(self):
        self.outq.clear()
        self.loseConnection()

    def getPeer(self):
        return self._peer

    def getHost(self):
        return self._host

    def setTcpKeepAlive(self, enabled):
        pass

    def setTcpNoDelay(self, enabled):
        pass

    def registerProducer(self, producer, streaming):
        if self.producer is not None:
            raise RuntimeError("producer already registered")
        self.producer, self.streaming, self.producer_paused = producer, streaming, False
        if self.lost or self.closing:
            producer.stopProducing()
        elif not streaming:
            producer.resumeProducing()
        elif len(self.outq) > self.bufsize:
            self.producer_paused = True
            producer.pauseProducing()

    def unregisterProducer(self):
        self.producer = None

    def pauseProducing(self):
        self.read_paused = True
        self.read_pause_log.append("pause")

    def resumeProducing(self):
        self.read_paused = False
        self.read_pause_log.append("resume")

    def stopProducing(self):
        self.loseConnection()

    # -- events
    def can_deliver(self):
        p = self.peer
        return bool(self.outq) and not self.blackhole and not self.broken and not p.lost and not p.read_paused \
            and self.owner not in self.link.net.silent_nodes

    def deliver(self, n=None):
        p = self.peer
        n = len(self.outq) if n is None else max(1, min(n, len(self.outq)))
        data = bytes(self.outq[:n])
        del self.outq[:n]
        off = self.delivered_total
        self.delivered_total += n
        if self.tamper is not None:
            data = self.tamper(data, off)
        if self.producer is not None and not self.closing and not self.lost:
            if self.streaming and self.producer_paused and len(self.outq) <= self.bufsize:
                self.producer_paused = False
                self.producer.resumeProducing()
            elif not self.streaming and not self.outq:
                self.producer.resumeProducing()
        if p.closing or p.lost or not data:
            return     # peer stopped reading
        try:
            p.protocol.dataReceived(data)
        except Exception:
            log.err(None, "exception in dataReceived")
            p._lose(error.ConnectionLost())
            self.link.break_(notify=(self,))

    def _lose(self, exc):
        if self.lost:
            return
        self.lost = True
        prod, self.producer = self.producer, None
        if prod is not None:
            try:
                prod.stopProducing()
            except Exception:
                log.err()
        try:
            self.protocol.connectionLost(failure.Failure(exc))
        except Exception:
            log.err(None, "exception in connectionLost")

    def finish_close(self):
        # local close completes: we get connectionLost; peer gets EOF after our remaining bytes
        self._lose(error.ConnectionDone())
        self.peer.eof_pending = True


class SimLink:
    def __init__(self, net, connector, port):
        self.net = net
        self.seq = net.next_seq()
        ca = address.IPv4Address("TCP", connector.node.address, net.next_port)
        net.next_port += 1
        sa = address.IPv4Address("TCP", port.node.address, port.portnum)
        self.a = SimTransport(self, connector.node, ca, sa)   # client (dialling) end
        self.b = SimTransport(self, port.node, sa, ca)        # server (listening) end
        self.a.peer, self.b.peer = self.b, self.a
        self.connector, self.port = connector, port
        self.pending_notify = []

    def establish(self):
        sp = self.port.factory.buildProtocol(self.a._host)
        self.b.protocol = sp
        cp = self.connector.factory.buildProtocol(self.b._host)
        self.a.protocol = cp
        sp.makeConnection(self.b)
        cp.makeConnection(self.a)

    def break_(self, notify=None):
        for t in (self.a, self.b):
            t.broken = True
        for t in (notify if notify is not None else (self.a, self.b)):
            if not t.lost and t not in self.pending_notify:
                self.pending_notify.append(t)

    def dead(self):
        return self.a.lost and self.b.lost


class _Resolver:
    """every name resolves, to a fake address unique per name (so dial targets stay identifiable)"""
    def __init__(self, net=None):
        self.net = net

    def resolveHostName(self, receiver, hostName, portNumber=0, addressTypes=None,
                        transportSemantics="TCP"):
        receiver.resolutionBegan(None)
        if hostName.endswith(".invalid"):
            # a name that does not resolve (no DNS on this LAN): HostnameEndpoint fails with DNSLookupError
            receiver.resolutionComplete()
            return receiver
        if _is_ip(hostName) or self.net is None:
            ip = hostName if _is_ip(hostName) else "10.9.9.9"
        else:
            names = self.net.names
            if hostName not in names:
                names[hostName] = "10.8.%d.%d" % (len(names) // 250, 1 + len(names) % 250)
            ip = names[hostName]
        receiver.addressResolved(address.IPv4Address("TCP", ip, portNumber))
        receiver.resolutionComplete()
        return receiver


def _is_ip(h):
    parts = h.split(".")
    return len(parts) == 4 and all(p.isdigit() and int(p) < 256 for p in parts)


@implementer(interfaces.IReactorTCP, interfaces.IReactorTime, interfaces.IReactorPluggableNameResolver,
             interfaces.IReactorCore)
class NodeReactor:
    def __init__(self, world, name, addr):
        self.world, self.name, self.address = world, name, addr
        self.nameResolver = _Resolver(world.net)
        self.running = True

    def installNameResolver(self, r):
        self.nameResolver = r

    # time
    def seconds(self):
        return self.world.clock.seconds()

    def callLater(self, delay, f, *a, **kw):
        return self.world.clock.callLater(delay, f, *a, **kw)

    def getDelayedCalls(self):
        return self.world.clock.getDelayedCalls()

    def cancelCallLater(self, c):
        c.cancel()

    # tcp
    def listenTCP(self, port, factory, backlog=50, interface=""):
        net = self.world.net
        if port == 0:
            port = net.next_port
            net.next_port += 1
        if port in net.ports:
            raise error.CannotListenError(interface, port, "in use")
        p = SimPort(net, self, port, factory)
        net.ports[port] = p
        factory.doStart()
        net.listened.append((self.name, port))
        return p

    def connectTCP(self, host, port, factory, timeout=30, bindAddress=None):
        net = self.world.net
        c = SimConnector(net, self, host, port, factory)
        net.dialled.append((self.name, host, port))
        net.pending.append(c)
        factory.doStart()
        factory.startedConnecting(c)
        return c

    def addSystemEventTrigger(self, *a, **k):
        return None

    def removeSystemEventTrigger(self, t):
        pass

    def callWhenRunning(self, f, *a, **kw):
        return self.callLater(0, f, *a, **kw)

    def stop(self):
        self.running = False


class SimNetwork:
    def __init__(self, world):
        self.world = world
        self.ports = {}
        self.next_port = 40000
        self.pending = []
        self.links = []
        self.all_links = []
        self.dialled = []
        self.listened = []
        self.bufsize = 1 << 16
        self._seq = 0
        self.names = {}      # hostname -> fake ip handed out by the resolver
        self.silent_nodes = set()   # nodes whose outgoing TCP bytes are black-holed (links stay up)
        self.slow_ports = set()     # connects to these ports stay in flight (SYN unanswered) while listed

    def next_seq(self):
        self._seq += 1
        return self._seq

    def dial_targets(self, nodename=None):
        """set of (hostname-or-ip, port) passed to connectTCP, fake addresses mapped back to names"""
        back = {ip: name for name, ip in self.names.items()}
        return {(back.get(h, h), p) for (n, h, p) in self.dialled if nodename is None or n == nodename}


# ------------------------------------------------------------------ world
def wormhole_frame(f):
    """innermost traceback frame under .../wormhole/ of a Failure, as 'file:func'"""
    try:
        frames = list(f.frames) if f.frames else []
        if not frames and f.getTracebackObject() is not None:
            import traceback
            frames = [(fs.name, fs.filename, fs.lineno, None, None)
                      for fs in traceback.extract_tb(f.getTracebackObject())]
        best = None
        for fr in frames:
            fn = fr[1]
            if "/wormhole/" in fn and "/test/" not in fn:
                best = "%s:%s" % (fn.split("/wormhole/")[-1], fr[0])
        return best
    except Exception:
        return None


class World:
    def __init__(self, key=b"k", welcome_motd=None, welcome_error=None, bufsize=1 << 16):
        self.clock = SimClock()
        self.net = SimNetwork(self)
        self.net.bufsize = bufsize
        self.services = []
        self.cmdlog = []      # (svcname, conn#, command dict) as written by the client
        self.srvlog = []      # (svcname, conn#, message dict) as written by the server
        self.errors = []
        self.steps = 0
        self.trace = []
        self.srv_exceptions = 0
        self.c2s_filter = None
        self.on_deliver = None   # hook(conn, payload) just before a server message reaches the client
        self.db = create_channel_db(":memory:")
        self.udb = create_usage_db(":memory:")
        self.server = make_server(self.db, usage_db=self.udb, signal_error=welcome_error,
                                  welcome_motd=welcome_motd)
        self._t = 1000.0
        self.clients = []
        self.closed = False
        self._obs = lambda ev: self.errors.append(ev) if ev.get("isError") else None
        log.addObserver(self._obs)
        self._patches = [
            mock.patch.object(_rendezvous, "internet", self._shim()),
            mock.patch.object(ipaddrs, "find_addresses", lambda: ["10.0.0.77"]),
            mock.patch.object(transit, "allocate_tcp_port", self._alloc_port),
            mock.patch.object(policies.TimeoutMixin, "callLater",
                              lambda s, period, func: self.clock.callLater(period, func)),
            mock.patch("os.urandom", DRBG(key)),
            mock.patch.object(server_websocket.time, "time", self._time),
        ]
        for p in self._patches:
            p.start()

    def _time(self):
        self._t += 0.001
        return self._t

    def _alloc_port(self):
        p = self.net.next_port
        self.net.next_port += 1
        return p

    def _shim(self):
        world = self

        class Shim:
            @staticmethod
            def ClientService(ep, f, *a, **kw):
                return FakeService(world, ep, f, *a, **kw)
        return Shim

    def close(self):
        if self.closed:
            return
        self.closed = True
        for p in reversed(self._patches):
            p.stop()
        gc.collect()
        log.removeObserver(self._obs)

    def error_summaries(self):
        """[(exception type name, innermost wormhole frame, message)] of logged errors"""
        out = []
        for ev in self.errors:
            f = ev.get("failure")
            if f is not None:
                out.append((type(f.value).__name__, wormhole_frame(f), str(f.value)[:200]))
            else:
                out.append(("log", None, str(ev.get("message"))[:200]))
        return out

    def start_relay(self, port=4001, ip="10.0.0.200"):
        """the real wormhole_transit_relay protocol listening on the sim network"""
        from twisted.internet import protocol as tprotocol
        from wormhole_transit_relay.transit_server import Transit, TransitConnection
        from wormhole_transit_relay.usage import create_usage_tracker
        node = NodeReactor(self, "relay", ip)
        usage = create_usage_tracker(blur_usage=None, log_file=None, usage_db=None)
        f = tprotocol.ServerFactory()
        f.protocol = TransitConnection
        f.log_requests = False
        f.transit = Transit(usage, self.clock.seconds)
        node.listenTCP(port, f)
        self.relay_node = node
        return "tcp:%s:%d" % (ip, port)

    def node(self, name=None):
        n = len(self.clients)
        return NodeReactor(self, name or ("n%d" % n), "10.0.0.%d" % (n + 1))

    def create(self, appid="appid", **kw):
        node = self.node()
        eq = EventualQueue(node)
        before = len(self.services)
        w = wormhole.create(appid, "ws://sim:4000/v1", node, _eventual_queue=eq, **kw)
        self.clients.append(w)
        w._sim_node = node
        w._sim_svc = self.services[before]
        return w

    # ---- event enumeration (ordered, stable)
    def enabled(self, faults=False, mailbox_faults=None, net_faults=None):
        mf = faults if mailbox_faults is None else mailbox_faults
        nf = faults if net_faults is None else net_faults
        ev = []
        for svc in self.services:
            c = svc.conn
            if c is None or not c.alive:
                if svc.started and not svc.dead:
                    if mf and svc.re_refuse > 0 and svc.nconn >= 1:
                        ev.append(("mb.refuse", svc))
                    if svc.hs_slow != "only":
                        ev.append(("mb.connect", svc))
                    if svc.hs_slow:
                        ev.append(("mb.tcp", svc))
                    if mf and svc.hs_fail_first and svc.nconn == 0 and svc.hs_failed == 0:
                        # the very first TCP connection succeeds but its WebSocket negotiation fails
                        ev.append(("mb.hsfail", svc))
                    if mf and svc.hs_fail > 0 and svc.nconn >= 1:
                        # TCP connects but the WebSocket negotiation fails: onClose without onOpen
                        ev.append(("mb.hsfail", svc))
                continue
            if getattr(c, "half_open", False):
                # TCP is up, the WebSocket negotiation has not finished
                ev.append(("mb.stopfin", c) if c.stopping else ("mb.open", c))
                continue
            if getattr(c, "ws_closing", False):
                # the closing handshake is done, the server has not dropped the TCP connection yet
                ev.append(("mb.stopfin", c) if c.stopping else ("mb.closefin", c))
                continue
            if c.c2s:
                ev.append(("mb.c2s", c))
            if c.stopping:
                ev.append(("mb.stopfin", c))
            elif c.s2c:
                ev.append(("mb.s2c", c))
            if mf and not c.stopping:
                ev.append(("mb.drop", c))
        for cn in list(self.net.pending):
            if cn.port in self.net.slow_ports:
                continue
            ev.append(("net.connect", cn))
        for l in list(self.net.links):
            for t in (l.a, l.b):
                if t.can_deliver():
                    ev.append(("net.deliver", t))
                if t.closing and not t.lost:
                    ev.append(("net.finclose", t))
                if t.eof_pending and not t.lost and (not t.peer.outq or t.peer.broken):
                    ev.append(("net.eof", t))
            for t in l.pending_notify:
                if not t.lost:
                    ev.append(("net.notify", t))
            if nf and not l.a.broken and not (l.a.lost or l.b.lost):
                ev.append(("net.break", l))
        due = [c for c in self.clock.getDelayedCalls() if c.getTime() <= self.clock.seconds()]
        if due:
            ev.append(("clock.due",))
        return ev

    def next_timer(self):
        dc = self.clock.getDelayedCalls()
        return min(c.getTime() for c in dc) if dc else None

    def do(self, e, arg=None):
        self.steps += 1
        k = e[0]
        self.trace.append(k)
        if k == "mb.refuse":
            svc = e[1]
            svc.re_refuse -= 1
            self._attempt_failed(svc)
        elif k == "mb.connect":
            svc = e[1]
            if svc.refuse > 0:
                svc.refuse -= 1
                svc.failures += 1
                self._attempt_failed(svc)
                waiters, svc.when = svc.when, []
                keep = []
                for d, faf in waiters:
                    if faf is not None and svc.failures >= faf and not d.called:
                        d.errback(failure.Failure(error.ConnectionRefusedError()))
                    else:
                        keep.append((d, faf))
                svc.when = keep + svc.when
                return
            svc.nconn += 1
            svc.failed_attempts = 0
            c = MailConn(self, svc, svc.nconn)
            svc.conn = c
            self._count_open(); c.srv.onOpen()
            self._rx_guard(c, lambda: c.cli.onOpen())
            waiters, svc.when = svc.when, []
            for d, _ in waiters:
                if not d.called:
                    d.callback(None)
        elif k == "mb.tcp":
            svc = e[1]
            svc.nconn += 1
            svc.failed_attempts = 0
            c = MailConn(self, svc, svc.nconn)
            c.half_open = True
            svc.conn = c
            waiters, svc.when = svc.when, []
            for d, _ in waiters:          # ClientService has a protocol: whenConnected fires
                if not d.called:
                    d.callback(None)
        elif k == "mb.open":
            c = e[1]
            c.half_open = False
            self._count_open(); c.srv.onOpen()
            self._rx_guard(c, lambda: c.cli.onOpen())
        elif k == "mb.stopfin" and getattr(e[1], "half_open", False):
            # stopService() while the negotiation was in flight: Autobahn reports onClose without onOpen,
            # then ClientService finishes stopping
            c = e[1]
            svc = c.svc
            c.alive = False
            svc.conn = None
            svc._finishing = []
            try:
                c.cli.onClose(False, 1006, "connection was closed uncleanly (sim: during negotiation)")
            except Exception:
                log.err(None, "exception in onClose")
            later, svc._finishing = svc._finishing, None
            d, svc.stop_d = svc.stop_d, None
            for x in [d] + later:
                if x is not None and not x.called:
                    x.callback(None)
        elif k == "mb.hsfail":
            svc = e[1]
            if svc.nconn >= 1:
                svc.hs_fail -= 1
            svc.hs_failed += 1
            c = MailConn(self, svc, svc.nconn + 1000 * svc.hs_failed)
            c.alive = False
            waiters, svc.when = svc.when, []
            for d, _ in waiters:          # ClientService saw a TCP connection
                if not d.called:
                    d.callback(None)
            svc._finishing = []
            try:
                c.cli.onClose(False, 1006, "sim: websocket negotiation failed")
            except Exception:
                log.err(None, "exception in onClose")
            later, svc._finishing = svc._finishing, None
            for x in later:               # a stopService() issued from onClose completes after it
                if not x.called:
                    x.callback(None)
        elif k == "mb.c2s":
            c = e[1]
            payload = c.c2s.pop(0)
            c.processed.append(json.loads(payload))
            self._srv_rx(c, payload)
        elif k == "mb.s2c":
            c = e[1]
            n = arg or 1
            chunk, c.s2c[:] = c.s2c[:n], c.s2c[n:]
            c.in_rx = True
            try:
                for m in chunk:
                    if not c.alive:
                        break
                    if self.on_deliver is not None:
                        self.on_deliver(c, m)
                    if not self._rx_guard(c, lambda m=m: c.cli.onMessage(m, False)):
                        break
            finally:
                c.in_rx = False
            if c.stopping:
                del c.s2c[:]
        elif k == "mb.stopfin":
            c = e[1]
            c.client_gone = True
            while c.c2s and c.alive:
                payload = c.c2s.pop(0)
                c.processed.append(json.loads(payload))
                self._srv_rx(c, payload)
            self._kill(c, clean=True)
            d, c.svc.stop_d = c.svc.stop_d, None
            if d:
                d.callback(None)
        elif k == "mb.drop":
            # arg "clean": the server (or a proxy) ends the WebSocket with a proper close frame (code 1000);
            # arg "closing": the same in two steps - the client has received and answered the Close frame
            # (autobahn STATE_CLOSING: nothing more is received, sendMessage() raises), the TCP connection goes
            # down one scheduler event ("mb.closefin") later
            c = e[1]
            if arg == "closing" and not c.s2c and not c.in_rx:
                c.ws_closing = True
                del c.c2s[:]          # a server that has sent its Close frame ignores further data frames
                self.closing_windows = getattr(self, "closing_windows", 0) + 1
            else:
                self._kill(c, clean=(arg in ("clean", "closing")))
        elif k == "mb.closefin":
            self._kill(e[1], clean=True)
        elif k == "net.connect":
            cn = e[1]
            self.net.pending.remove(cn)
            port = self.net.ports.get(cn.port)
            # ports are globally unique in the sim; the host part is only recorded
            if arg == "refuse" or port is None or not port.listening:
                cn.factory.clientConnectionFailed(cn, failure.Failure(error.ConnectionRefusedError()))
            else:
                l = SimLink(self.net, cn, port)
                self.net.links.append(l)
                self.net.all_links.append(l)
                l.establish()
        elif k == "net.deliver":
            e[1].deliver(arg)
        elif k == "net.finclose":
            e[1].finish_close()
        elif k == "net.eof":
            e[1]._lose(error.ConnectionDone())
        elif k == "net.notify":
            t = e[1]
            t.link.pending_notify.remove(t)
            t._lose(error.ConnectionLost())
        elif k == "net.break":
            e[1].break_()
        elif k == "clock.due":
            self.clock.advance(0)
        self.net.links = [l for l in self.net.links if not l.dead()]

    def _attempt_failed(self, svc):
        """ClientService: a failed attempt asks the retry policy for the delay before the next one"""
        svc.failed_attempts += 1
        self.max_failed_attempts = max(getattr(self, "max_failed_attempts", 0), svc.failed_attempts)
        if svc.retry_policy is not None:
            try:
                delay = svc.retry_policy(svc.failed_attempts)
                if not (float(delay) >= 0):
                    raise ValueError("retry policy returned %r" % (delay,))
            except Exception:
                log.err(None, "retry policy failed: no further connection attempt is scheduled")
                svc.dead = True

    def _count_open(self):
        """the operator reconfigures the server (`--signal-error`) after `late_welcome[0]` connections:
        every later connection is greeted with an error welcome"""
        self.opens = getattr(self, "opens", 0) + 1
        lw = getattr(self, "late_welcome", None)
        if lw is not None and self.opens > lw[0]:
            self.server._welcome["error"] = lw[1]

    def _srv_rx(self, c, payload):
        if self.c2s_filter is not None:
            payload = self.c2s_filter(c, payload)   # message-level man in the middle
            if payload is None:
                return
        try:
            c.srv.onMessage(payload, False)
        except Exception:
            # the real server raises (rather than replying 'error') for some
            # malformed commands: server misbehaviour, modelled as a dropped connection
            self.srv_exceptions += 1
            self._kill(c, clean=False)

    def _rx_guard(self, c, fn):
        try:
            fn()
            return True
        except Exception:
            # Twisted: exception in dataReceived -> logged (WSClient.onMessage already
            # calls log.err), connection dropped
            self._kill(c, clean=False)
            return False

    def _kill(self, c, clean):
        if not c.alive:
            return
        c.alive = False
        del c.c2s[:]
        del c.s2c[:]
        c.srv.onClose(clean, 1000 if clean else 1006, "")
        try:
            c.cli.onClose(clean, 1000 if clean else 1006, "sim")
        except Exception:
            log.err(None, "exception in onClose")
        c.svc.conn = None
        d, c.svc.stop_d = c.svc.stop_d, None
        if d and not d.called:
            d.callback(None)

    # default argument for an event, chosen by the tape
    def arg_for(self, e, tape):
        if e[0] == "mb.s2c":
            n = len(e[1].s2c)
            if tape.exhausted():
                return n
            return 1 + tape.below(n)
        if e[0] == "net.deliver":
            if tape.exhausted():
                return None
            return tape.choice([None, None, 1, 2, 5, 40, 1000, 3, None])
        if e[0] == "mb.drop" and getattr(self, "clean_drops", False) and not tape.exhausted():
            return tape.choice([None, None, "clean", "closing"] if getattr(self, "closing_drops", False) else [None, None, "clean"])
        return None

    # fair run to quiescence (stabilisation phase)
    def settle(self, max_steps=5000, max_time=None, tape=None, max_connects=12):
        t_end = None if max_time is None else self.clock.seconds() + max_time
        n = 0
        rr = 0
        c0 = sum(s.nconn for s in self.services)
        while n < max_steps:
            if sum(s.nconn for s in self.services) - c0 > max_connects:
                # no faults are injected here, so every reconnect was caused by the client
                # (or server) raising: a livelock of the code under test, reported as such
                return "reconnect-loop"
            ev = self.enabled()
            if ev:
                if tape is not None and not tape.exhausted():
                    e = ev[tape.below(len(ev))]
                    arg = self.arg_for(e, tape)
                else:
                    e = ev[rr % len(ev)]
                    rr += 1
                    arg = len(e[1].s2c) if e[0] == "mb.s2c" else None
                self.do(e, arg)
                n += 1
                continue
            nt = self.next_timer()
            if nt is None:
                return "quiescent"
            if t_end is not None and nt > t_end:
                return "time"
            self.clock.advance(nt - self.clock.seconds())
            n += 1
        return "steps"
