# Dilated-world scenario driver shared by C10, C11, C13, C15, C16, C17 and C20(dilation).
# Two real wormholes (dilation=True) + the real mailbox server + the simulated TCP network + Noise;
# application operations on subchannels, deliveries, link kills and timers are interleaved by one tape.
import json, hashlib, collections
from zope.interface import implementer
from twisted.internet.protocol import Protocol, Factory
from twisted.internet.interfaces import IHalfCloseableProtocol
from twisted.python import failure
from simworld import World, Tape

NAMES = ["p", "q", "r", "s"]


def unwrap(p):
    return getattr(p, "_wrappedProtocol", p)


class End(Protocol):
    """application protocol on one end of a subchannel; records everything it is told"""
    def __init__(self, case, side, role, name):
        self.case, self.side, self.role, self.name = case, side, role, name
        self.ev = []                # ("made",) ("data", bytes) ("lost",) with step
        self.writes = []            # bytes written by this end (accepted by transport.write)
        self.closed_locally = None  # step of local loseConnection
        self.addr_name = None

    def connectionMade(self):
        self.ev.append(("made", None, self.case.step))
        self.case.ends.append(self)
        eager = self.case.P.get("eager")
        if eager and self.role == "opn":
            # an application that talks the moment it is connected: writes (and perhaps closes) synchronously
            # inside connectionMade()
            data = b"eager:%d" % len(self.case.ends)
            self.transport.write(data)
            self.writes.append(data)
            if eager == "close":
                self.closed_locally = self.case.step
                self.transport.loseConnection()

    def dataReceived(self, d):
        self.ev.append(("data", d, self.case.step))

    def connectionLost(self, why=None):
        self.ev.append(("lost", None, self.case.step))

    def kinds(self):
        return [e[0] for e in self.ev]

    def got(self):
        return [e[1] for e in self.ev if e[0] == "data"]


@implementer(IHalfCloseableProtocol)
class HalfEnd(End):
    def readConnectionLost(self):
        self.ev.append(("rlost", None, self.case.step))

    def writeConnectionLost(self):
        self.ev.append(("wlost", None, self.case.step))


class AccF(Factory):
    def __init__(self, case, side, name, half=False):
        self.case, self.side, self.name, self.half = case, side, name, half

    def buildProtocol(self, addr):
        e = (HalfEnd if self.half else End)(self.case, self.side, "acc", self.name)
        e.addr_name = getattr(addr, "subprotocol", None)
        self.case.accepted[(self.side, self.name)].append(e)
        return e


def default_params():
    return dict(
        tape=b"",
        ops=[],                      # application intents, see DilCase._intent_enabled
        dilate_at=["start", "start"],   # "start" | "tape" | "never"
        dilation=[True, True],       # wormhole.create(dilation=...)
        ping_interval=[30.0, 30.0],
        expected=[None, None],       # expected_subprotocols per side
        no_listen=[False, False],
        relay=False,
        kills=0,                     # budget of kills of the selected link
        bufsize=1 << 16,
        w_progress=10, w_app=4, w_kill=1,
        max_steps=1500,
        settle_time=200.0, settle_steps=20000,
        mailbox_chunks=True,
        half=False,                  # acceptors are IHalfCloseableProtocol
    )


class DilCase:
    def __init__(self, P):
        self.P = dict(default_params(), **P)
        self.step = 0
        self.ends = []
        self.accepted = collections.defaultdict(list)   # (side, name) -> [End] in accept order
        self.opens = []                 # [side, name, End or None, failure or None, step]
        self.listening = set()
        self.dilated = [False, False]
        self.dw = [None, None]
        self.closed_called = [None, None]
        self.close_results = [[], []]
        self.api_exc = []
        self.escaped = []
        self.kills = 0
        self.kill_info = []
        self.writes_while_down = 0
        self.inv_hook = None            # called after every step
        self.settles = []
        self.notes = collections.Counter()

    # ---- helpers
    def managers(self):
        return [getattr(w._boss._D, "_manager", None) for w in self.ws]

    def leader_index(self):
        from wormhole._dilation.roles import LEADER
        ms = self.managers()
        for i, m in enumerate(ms):
            if m is not None and m._my_role is LEADER:
                return i
        return None

    def selected_links(self):
        """links whose ends carry a selected DilatedConnectionProtocol"""
        out = []
        for l in self.W.net.links:
            if any(getattr(unwrap(t.protocol), "_manager", None) is not None for t in (l.a, l.b)):
                out.append(l)
        return out

    def entropy(self):
        P = self.P
        h = hashlib.sha256(bytes(P["tape"]))
        h.update(json.dumps([P["ops"], P["kills"], P["dilate_at"]], sort_keys=True, default=str).encode())
        return h.digest()

    # ---- setup
    def setup(self):
        P = self.P
        self.W = W = World(self.entropy(), bufsize=P["bufsize"])
        self.tape = Tape(P["tape"])
        relay = W.start_relay() if P["relay"] else None
        self.relay = relay
        if relay and P.get("relay_slow"):
            # the relay answers SYNs only once stabilisation starts: dials to it stay in flight
            W.net.slow_ports.add(4001)
        self.ws = []
        for i in range(2):
            w = W.create(dilation=P["dilation"][i], versions={"s": i})
            self.ws.append(w)
        for w in self.ws:
            w.set_code("3-purple-sausages")
        for i in range(2):
            if P["dilate_at"][i] == "start" and P["dilation"][i]:
                self.do_dilate(i)

    def do_dilate(self, i):
        P = self.P
        self.dilated[i] = True
        try:
            kw = dict(ping_interval=P["ping_interval"][i], no_listen=P["no_listen"][i])
            if P["expected"][i] is not None:
                kw["expected_subprotocols"] = list(P["expected"][i])
            if self.relay and (P.get("relay_sides") or [1, 1])[i]:
                kw["transit_relay_location"] = self.relay
            self.dw[i] = self.ws[i].dilate(**kw)
        except Exception as ex:
            self.api_exc.append((("dilate", i), ex))

    # ---- application intents
    def sub(self, key):
        """key = [opener side, index among that side's opens]; returns (opener End or None, acceptor End or None)"""
        side, idx = key
        mine = [o for o in self.opens if o[0] == side]
        if idx >= len(mine):
            return None, None, None
        o = mine[idx]
        name = o[1]
        same = [x for x in mine if x[1] == name]
        k = same.index(o)
        accs = self.accepted[(1 - side, name)]
        return o[2], (accs[k] if k < len(accs) else None), o

    def _intent_enabled(self, it):
        k = it[0]
        if k == "dilate":
            return not self.dilated[it[1]] and self.closed_called[it[1]] is None and self.P["dilation"][it[1]]
        if k == "listen":
            return self.dilated[it[1]] and (it[1], it[2]) not in self.listening and self.closed_called[it[1]] is None
        if k == "open":
            ok = self.dilated[it[1]] and self.closed_called[it[1]] is None
            if ok and not getattr(self, "relax", False) and (self.P.get("hold_last_open") or [0, 0])[it[1]]:
                # the last connect() of this side waits until the connection in use has been lost and replaced
                # at least once (earlier subchannels of the side may still be open then)
                rest = [x for x in self.remaining_intents if x[0] == "open" and x[1] == it[1]]
                if len(rest) == 1:
                    m = self.managers()[it[1]]
                    c_ = getattr(m, "_connection", None) if m is not None else None
                    t_ = getattr(c_, "transport", None)
                    if self.kills < 1 or t_ is None or getattr(t_, "broken", True) or getattr(t_, "lost", True):
                        return False
            return ok
        if k in ("write", "sclose", "write_after_close"):
            o, a, _ = self.sub(it[1])
            e = o if it[2] == "o" else a
            if e is None:
                return False
            if k == "write":
                return e.closed_locally is None and "lost" not in e.kinds() and self.closed_called[e.side] is None
            if k == "sclose":
                return e.closed_locally is None and "lost" not in e.kinds() and self.closed_called[e.side] is None
            return e.closed_locally is not None
        if k == "wclose":
            return self.closed_called[it[1]] is None
        return True

    def _do_intent(self, it):
        k = it[0]
        try:
            if k == "dilate":
                self.do_dilate(it[1])
            elif k == "listen":
                i, name = it[1], it[2]
                self.listening.add((i, name))
                d = self.dw[i].listener_for(name).listen(AccF(self, i, name, half=self.P["half"]))
                d.addErrback(lambda f, i=i, name=name: self.notes.update(["listen_failed:%s" % f.type.__name__]))
            elif k == "open":
                i, name = it[1], it[2]
                entry = [i, name, None, None, self.step]
                self.opens.append(entry)
                case = self

                class OpF(Factory):
                    def buildProtocol(self_, addr):
                        p = End(case, i, "opn", name)
                        entry[2] = p
                        return p
                if self.P.get("reuse_endpoints"):
                    # the application keeps one client endpoint per subprotocol and connects through it repeatedly
                    self._eps = getattr(self, "_eps", {})
                    ep = self._eps.get((i, name)) or self._eps.setdefault((i, name), self.dw[i].connector_for(name))
                else:
                    ep = self.dw[i].connector_for(name)
                d = ep.connect(OpF())
                d.addErrback(lambda f, entry=entry: entry.__setitem__(3, f))
            elif k == "write":
                o, a, _ = self.sub(it[1])
                e = o if it[2] == "o" else a
                n = it[3]
                data = (b"%d:%d:" % (len(e.writes), n) + bytes([(len(e.writes) * 37 + n) % 256]) * n)[:max(n, 1)] if n else b""
                if not self.managers()[e.side]._connection:
                    self.writes_while_down += 1
                e.transport.write(data)
                e.writes.append(data)
            elif k == "sclose":
                o, a, _ = self.sub(it[1])
                e = o if it[2] == "o" else a
                e.closed_locally = self.step
                if isinstance(e, HalfEnd):
                    e.transport.loseWriteConnection()
                else:
                    e.transport.loseConnection()
            elif k == "write_after_close":
                o, a, _ = self.sub(it[1])
                e = o if it[2] == "o" else a
                try:
                    e.transport.write(b"late")
                    e.late_write_accepted = True
                    e.writes.append(b"late")
                except Exception as ex:
                    e.late_write_error = ex
            elif k == "wclose":
                i = it[1]
                self.closed_called[i] = self.step
                self.states_at_close = getattr(self, "states_at_close", {})
                m = self.managers()[i]
                self.states_at_close[i] = (self.state_name(m), self.connector_state(m))
                d = self.ws[i].close()
                d.addBoth(lambda x, i=i: self.close_results[i].append(x))
        except Exception as ex:
            self.api_exc.append((tuple(it[:3]), ex))

    @staticmethod
    def state_name(m):
        if m is None:
            return None
        try:
            return getattr(m, "_trace_state", None) or "?"
        except Exception:
            return "?"

    @staticmethod
    def connector_state(m):
        c = getattr(m, "_connector", None) if m is not None else None
        return getattr(c, "_trace_state", None) if c is not None else None

    def install_traces(self):
        """record the current state name of each Manager/Connector via their set_trace hooks"""
        for m in self.managers():
            if m is None or getattr(m, "_traced", False):
                continue
            m._traced = True
            m._trace_state = "WAITING"
            m._trace_log = []
            # remember where in the network's dial log each Connector generation of this Manager starts
            sc_ = getattr(m, "_start_connecting", None)
            if callable(sc_):
                def start_connecting(m=m, sc_=sc_):
                    m._verif_dial_mark = len(self.W.net.dialled)
                    return sc_()
                try:
                    m._start_connecting = start_connecting
                except Exception:
                    pass

            def tr(old_state, input, new_state, m=m):
                m._trace_state = new_state
                m._trace_log.append((old_state, input, new_state, self.step))
            try:
                m.set_trace(tr)
            except Exception:
                pass

    # ---- main loop
    def run(self, extra_choices=None, after_step=None):
        P = self.P
        W, tape = self.W, self.tape
        intents = [list(x) for x in P["ops"]]
        for i in range(2):
            if P["dilate_at"][i] == "tape" and P["dilation"][i]:
                intents.insert(0, ["dilate", i])
        self.remaining_intents = intents
        kills_left = P["kills"]
        while not tape.exhausted() and self.step < P["max_steps"]:
            self.step += 1
            self.install_traces()
            choices = [(P["w_progress"], e) for e in W.enabled()]
            if not choices:
                # nothing to deliver: letting virtual time pass (to the next timer) is a choice like any other
                nt = W.next_timer()
                if nt is not None and nt - W.clock.seconds() <= P.get("max_tick", 35.0):
                    choices.append((P["w_progress"], ("tick", nt)))
            seen_kinds = set()
            intents = self.remaining_intents
            for it in intents:
                # keep per-(kind,target) issue order: only the first enabled intent of each target
                tag = (it[0], json.dumps(it[1], default=str))
                if tag in seen_kinds:
                    continue
                if self._intent_enabled(it):
                    choices.append((P.get("w_close", 1) if it[0] == "wclose" else P["w_app"], ("app", it)))
                    seen_kinds.add(tag)
                elif it[0] in ("write", "sclose"):
                    seen_kinds.add(tag)     # later ops on this subchannel end wait for earlier ones
            if kills_left > 0:
                for l in self.selected_links():
                    if not l.a.broken:
                        choices.append((P["w_kill"], ("kill", l)))
            if extra_choices is not None:
                choices.extend(extra_choices(self))
            if not choices:
                nt = W.next_timer()
                if nt is None or nt - W.clock.seconds() > 10.0:
                    break
                W.clock.advance(nt - W.clock.seconds())
                continue
            e = tape.weighted(choices)
            try:
                if e[0] == "app":
                    self.remaining_intents.remove(e[1])
                    self._do_intent(e[1])
                elif e[0] == "kill":
                    kills_left -= 1
                    self.do_kill(e[1])
                elif e[0] == "custom":
                    e[1](self)
                elif e[0] == "tick":
                    W.clock.advance(max(0.0, e[1] - W.clock.seconds()))
                else:
                    W.do(e, W.arg_for(e, tape))
            except Exception as ex:
                self.escaped.append((str(e[0]), ex, failure.Failure()))
            if after_step is not None:
                after_step(self)

    def do_kill(self, l):
        self.kills += 1
        ms = self.managers()
        depth = []
        for m in ms:
            try:
                depth.append(len(m._outbound._outbound_queue))
            except Exception:
                depth.append(None)
        inflight = [len(l.a.outq), len(l.b.outq)]
        mode = self.P.get("kill_notify", "both")
        if mode == "tape":
            mode = self.tape.choice(["both", "both", "leader", "follower"] + (["none"] if self.P.get("silent_kills") else []))
        self.kill_info.append(dict(step=self.step, unacked=depth, inflight=inflight, notify=mode))
        li = self.leader_index()
        if mode == "none":
            # a silent stall (NAT timeout, cable pulled): nobody's TCP stack reports anything; the Leader's
            # keep-alive has to notice
            l.break_(notify=())
        elif mode == "both" or li is None:
            l.break_()
        else:
            # a half-dead link: only one side's TCP stack reports the loss
            who = self.ws[li if mode == "leader" else 1 - li]._sim_node
            ends = tuple(t for t in (l.a, l.b) if t.owner is who)
            l.break_(notify=ends if ends else None)

    def flush_intents(self, skip=("wclose",), after_step=None):
        """issue remaining intents in order (stabilisation), settling in between"""
        if not self.P.get("relay_slow_forever"):
            self.W.net.slow_ports.clear()
        self.relax = True
        progress = True
        while progress:
            progress = False
            for it in list(self.remaining_intents):
                if it[0] in skip:
                    continue
                if self._intent_enabled(it):
                    self.step += 1
                    self.remaining_intents.remove(it)
                    self._do_intent(it)
                    progress = True
                    break
            self.settles.append(self.settle(after_step=after_step))

    def settle(self, max_time=None, max_steps=None, after_step=None):
        W = self.W
        max_time = self.P["settle_time"] if max_time is None else max_time
        max_steps = self.P["settle_steps"] if max_steps is None else max_steps
        t_end = W.clock.seconds() + max_time
        n = 0
        limit = self.P.get("max_reconnects")
        seen0 = self._selected_seen()
        while n < max_steps:
            if limit is not None and len(self._selected_seen() - seen0) > limit:
                # no faults are injected here: every replacement of the connection in use was caused by
                # the code under test dropping it (or failing to keep it) - a livelock, reported as such
                return "reconnect-loop"
            ev = W.enabled()
            if ev:
                e = ev[n % len(ev)]
                try:
                    W.do(e, len(e[1].s2c) if e[0] == "mb.s2c" else None)
                except Exception as ex:
                    self.escaped.append((str(e[0]), ex, failure.Failure()))
                self.step += 1
                self.install_traces()
                if after_step is not None:
                    after_step(self)
                n += 1
                continue
            nt = W.next_timer()
            if nt is None:
                return "quiescent"
            if nt > t_end:
                return "time"
            W.clock.advance(nt - W.clock.seconds())
            if after_step is not None:
                after_step(self)
            n += 1
        return "steps"

    def _selected_seen(self):
        """links on which some end has (had) a selected L2 protocol"""
        out = getattr(self, "_sel_seen", set())
        for l in self.W.net.all_links:
            if l.seq not in out and any(getattr(unwrap(t.protocol), "_manager", None) is not None for t in (l.a, l.b)):
                out.add(l.seq)
        self._sel_seen = out
        return set(out)

    def close_all(self):
        for i in range(2):
            if self.closed_called[i] is None:
                self.step += 1
                self._do_intent(["wclose", i])
        self.settles.append(self.settle())

    def finish(self):
        self.errors = self.W.error_summaries() if not self.W.closed else getattr(self, "errors", [])
        self.W.close()
        self.errors = self.W.error_summaries()


def trace_of(case):
    return ",".join(case.W.trace[:400])
