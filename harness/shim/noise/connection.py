# Minimal Noise_NNpsk0_25519_ChaChaPoly_BLAKE2s (Noise spec rev 34), API-compatible
# subset of noiseprotocol's NoiseConnection as used by wormhole._dilation.
import hashlib, hmac, struct
from cryptography.hazmat.primitives.asymmetric.x25519 import X25519PrivateKey, X25519PublicKey
from cryptography.hazmat.primitives.ciphers.aead import ChaCha20Poly1305
from cryptography.hazmat.primitives import serialization
from cryptography.exceptions import InvalidTag
from .exceptions import *

MAX_MESSAGE_LEN = 65535
HASHLEN = 32
DHLEN = 32

def _hash(data):
    return hashlib.blake2s(data).digest()

def _hmac(key, data):
    return hmac.new(key, data, hashlib.blake2s).digest()

def _hkdf(ck, ikm, n):
    temp = _hmac(ck, ikm)
    o1 = _hmac(temp, b"\x01")
    o2 = _hmac(temp, o1 + b"\x02")
    if n == 2:
        return o1, o2
    o3 = _hmac(temp, o2 + b"\x03")
    return o1, o2, o3

class _Cipher:
    def __init__(self, k=None):
        self.k = k; self.n = 0
    def has_key(self): return self.k is not None
    def _nonce(self):
        return b"\x00\x00\x00\x00" + struct.pack("<Q", self.n)
    def encrypt_with_ad(self, ad, pt):
        if self.k is None: return pt
        if self.n >= 2**64 - 1: raise NoiseMaxNonceError()
        ct = ChaCha20Poly1305(self.k).encrypt(self._nonce(), pt, ad)
        self.n += 1
        return ct
    def decrypt_with_ad(self, ad, ct):
        if self.k is None: return ct
        if self.n >= 2**64 - 1: raise NoiseMaxNonceError()
        try:
            pt = ChaCha20Poly1305(self.k).decrypt(self._nonce(), ct, ad)
        except InvalidTag:
            raise NoiseInvalidMessage("Failed authentication of message")
        self.n += 1
        return pt

class NoiseConnection:
    @classmethod
    def from_name(cls, name):
        if isinstance(name, str): name = name.encode("ascii")
        if name != b"Noise_NNpsk0_25519_ChaChaPoly_BLAKE2s":
            raise NoiseProtocolNameError(name)
        return cls(name)
    def __init__(self, name):
        self._name = name; self._psk = None; self._initiator = None
        self._prologue = b""; self._started = False
        self.handshake_finished = False
        self._next = None  # "write" / "read"
    def set_psks(self, psk=None, psks=None):
        if psk is None: psk = psks[0]
        if not isinstance(psk, bytes) or len(psk) != 32:
            raise NoisePSKError("psk must be 32 bytes")
        self._psk = psk
    def set_prologue(self, p): self._prologue = p
    def set_as_initiator(self): self._initiator = True
    def set_as_responder(self): self._initiator = False
    def start_handshake(self):
        if self._initiator is None or self._psk is None:
            raise NoiseValueError("role and psk must be set")
        n = self._name
        self._h = n + b"\x00"*(HASHLEN-len(n)) if len(n) <= HASHLEN else _hash(n)
        self._ck = self._h
        self._mix_hash(self._prologue)
        self._c = _Cipher()
        self._e = None; self._re = None
        self._started = True
        self._next = "write" if self._initiator else "read"
    # symmetric state
    def _mix_hash(self, d): self._h = _hash(self._h + d)
    def _mix_key(self, ikm):
        self._ck, tk = _hkdf(self._ck, ikm, 2); self._c = _Cipher(tk)
    def _mix_key_and_hash(self, ikm):
        self._ck, th, tk = _hkdf(self._ck, ikm, 3); self._mix_hash(th); self._c = _Cipher(tk)
    def _enc_and_hash(self, pt):
        ct = self._c.encrypt_with_ad(self._h, pt); self._mix_hash(ct); return ct
    def _dec_and_hash(self, ct):
        pt = self._c.decrypt_with_ad(self._h, ct); self._mix_hash(ct); return pt
    def _gen_e(self):
        self._e = X25519PrivateKey.generate()
        return self._e.public_key().public_bytes(serialization.Encoding.Raw, serialization.PublicFormat.Raw)
    def _split(self):
        k1, k2 = _hkdf(self._ck, b"", 2)
        c1, c2 = _Cipher(k1), _Cipher(k2)
        if self._initiator: self._send, self._recv = c1, c2
        else: self._send, self._recv = c2, c1
        self.handshake_finished = True; self._next = None
    def write_message(self, payload=b""):
        if not self._started: raise NoiseHandshakeError("call start_handshake first")
        if self.handshake_finished or self._next != "write":
            raise NoiseHandshakeError("not our turn to write")
        out = b""
        if self._initiator:
            self._mix_key_and_hash(self._psk)          # psk
            epub = self._gen_e(); out += epub; self._mix_hash(epub); self._mix_key(epub)  # e
            out += self._enc_and_hash(payload)
            self._next = "read"
        else:
            epub = self._gen_e(); out += epub; self._mix_hash(epub); self._mix_key(epub)  # e
            self._mix_key(self._e.exchange(self._re))  # ee
            out += self._enc_and_hash(payload)
            self._split()
        if len(out) > MAX_MESSAGE_LEN: raise NoiseInvalidMessage("too long")
        return out
    def read_message(self, data):
        if not self._started: raise NoiseHandshakeError("call start_handshake first")
        if self.handshake_finished or self._next != "read":
            raise NoiseHandshakeError("not our turn to read")
        if not isinstance(data, bytes) or len(data) > MAX_MESSAGE_LEN:
            raise NoiseInvalidMessage("bad length")
        if len(data) < DHLEN + 16:
            raise NoiseInvalidMessage("handshake message too short")
        try:
            if not self._initiator:
                self._mix_key_and_hash(self._psk)
                re = data[:DHLEN]; self._re = X25519PublicKey.from_public_bytes(re)
                self._mix_hash(re); self._mix_key(re)
                pt = self._dec_and_hash(data[DHLEN:])
                self._next = "write"
            else:
                re = data[:DHLEN]; self._re = X25519PublicKey.from_public_bytes(re)
                self._mix_hash(re); self._mix_key(re)
                self._mix_key(self._e.exchange(self._re))
                pt = self._dec_and_hash(data[DHLEN:])
                self._split()
        except ValueError as e:   # low-order point etc.
            raise NoiseInvalidMessage(str(e))
        return pt
    def encrypt(self, data):
        if not self.handshake_finished: raise NoiseHandshakeError("Handshake not finished yet!")
        if not isinstance(data, bytes) or len(data) > MAX_MESSAGE_LEN:
            raise NoiseInvalidMessage("Data must be bytes and <= %d bytes" % MAX_MESSAGE_LEN)
        return self._send.encrypt_with_ad(b"", data)
    def decrypt(self, data):
        if not self.handshake_finished: raise NoiseHandshakeError("Handshake not finished yet!")
        if not isinstance(data, bytes) or len(data) > MAX_MESSAGE_LEN:
            raise NoiseInvalidMessage("Data must be bytes and <= %d bytes" % MAX_MESSAGE_LEN)
        return self._recv.decrypt_with_ad(b"", data)
