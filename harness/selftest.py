# self-test of the trusted base that /verif adds: the Noise shim (or the real library) and the sim world
import sys
import simworld  # noqa: F401  (selects real noiseprotocol or the shim)
from noise.connection import NoiseConnection
from noise.exceptions import NoiseInvalidMessage


def pair(psk_a, psk_b, prologue=b"p"):
    a = NoiseConnection.from_name(b"Noise_NNpsk0_25519_ChaChaPoly_BLAKE2s")
    b = NoiseConnection.from_name(b"Noise_NNpsk0_25519_ChaChaPoly_BLAKE2s")
    a.set_psks(psk_a); b.set_psks(psk_b)
    a.set_prologue(prologue); b.set_prologue(prologue)
    a.set_as_initiator(); b.set_as_responder()
    a.start_handshake(); b.start_handshake()
    m1 = a.write_message()
    assert len(m1) == 48, len(m1)
    b.read_message(m1)
    m2 = b.write_message()
    assert len(m2) == 48, len(m2)
    a.read_message(m2)
    return a, b


a, b = pair(b"k" * 32, b"k" * 32)
for n in (0, 1, 100, 65519):
    ct = a.encrypt(b"x" * n)
    assert len(ct) == n + 16
    assert b.decrypt(ct) == b"x" * n
ct = bytearray(b.encrypt(b"hello")); ct[0] ^= 1
try:
    a.decrypt(bytes(ct)); sys.exit("tampered ciphertext accepted")
except NoiseInvalidMessage:
    pass
try:
    pair(b"k" * 32, b"j" * 32); sys.exit("wrong psk accepted")
except NoiseInvalidMessage:
    pass
# sim world smoke test: one complete mailbox session
W = simworld.World(b"selftest")
try:
    x = W.create(); y = W.create()
    x.set_code("1-a-b"); y.set_code("1-a-b"); x.send_message(b"hi")
    got = []; y.get_message().addCallback(got.append)
    assert W.settle() == "quiescent" and got == [b"hi"], got
    r = []; x.close().addBoth(r.append); y.close().addBoth(r.append)
    assert W.settle() == "quiescent" and r == ["happy", "happy"], r
finally:
    W.close()
print("selftest ok (noise: %s)" % NoiseConnection.__module__)
