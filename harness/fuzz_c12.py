#!/venv/bin/python
# Coverage-guided supplement for C12 (thorough tier): raw bytes from a party WITHOUT the dilation key are
# fed to a real DilatedConnectionProtocol end (Leader or Follower, with or without relay handshake).
# Oracle inside the target: nothing reaches the manager stub, no candidate is announced, and the only
# exception allowed out of dataReceived handling is the protocol's own Disconnect (-> loseConnection).
import sys, os
HERE = os.path.dirname(os.path.abspath(__file__))
sys.path.insert(0, HERE)
if os.path.isdir(os.path.join(os.path.dirname(HERE), ".deps")):
    sys.path.append(os.path.join(os.path.dirname(HERE), ".deps"))
import automat._methodical
automat._methodical.assertNoCode = lambda f: None      # instrumented bodies are not "empty"
import atheris
try:
    import noise.connection  # noqa: F401
except ImportError:
    sys.path.insert(0, os.path.join(HERE, "shim"))
with atheris.instrument_imports(include=["wormhole"]):
    import simworld  # noqa: F401  (first import of wormhole happens here, instrumented)
    from wormhole._dilation import connection as C     # noqa: F401
    from wormhole._dilation.roles import LEADER, FOLLOWER
from props import c12


def one_input(data):
    if len(data) < 2:
        return
    role = LEADER if data[0] & 1 else FOLLOWER
    relay = b"please relay X for side y\n" if data[0] & 2 else None
    chunk = 1 + (data[1] % 97)
    body = bytes(data[2:])
    cs, p, t = c12.make_end(role, c12.KEY, relay)
    m = c12.ManagerStub()
    p.makeConnection(t)
    pos = 0
    while pos < len(body) and not t.lose:
        p.dataReceived(body[pos:pos + chunk])      # Disconnect is handled inside; anything else is a finding
        pos += chunk
    if cs.candidates or m.records or m.peer:
        raise AssertionError("unkeyed bytes reached the connector/manager: %r %r" % (cs.candidates, m.records))


def main():
    atheris.Setup(sys.argv, one_input)
    atheris.Fuzz()


if __name__ == "__main__":
    if len(sys.argv) > 2 and sys.argv[1] == "--one":
        one_input(open(sys.argv[2], "rb").read())
        print("ok")
    else:
        main()
