# Common runner: shards a Hypothesis search over 16 processes, buckets violations,
# applies the known-findings file, writes evidence and replay files.
# Contract (DESIGN.md 2.6): exit 0 held / exit 1 + VIOLATION line / exit 2 harness error.
import sys, os, json, time, hashlib, importlib, traceback, collections, glob, argparse
import multiprocessing as mp

VERIF = os.path.dirname(os.path.dirname(os.path.abspath(__file__)))
NSHARDS = int(os.environ.get("VERIF_SHARDS", "16"))


# ------------------------------------------------------------------ case results
class Violation(dict):
    """clause: which oracle clause; input_class: what fails (matched against the
    known-findings file); exc/frame: root-cause bucket; detail: free text"""
    def __init__(self, clause, detail="", input_class="", exc=None, frame=None):
        dict.__init__(self, clause=clause, detail=str(detail)[:1500], input_class=input_class,
                      exc=exc, frame=frame)

    def bucket(self):
        return (self["clause"], self["exc"], self["frame"], self["input_class"])


class CaseTimeout(BaseException):
    pass


class CaseResult:
    def __init__(self):
        self.violations = []
        self.features = {}        # small dict of hashable scalars
        self.nontrivial = False
        self.trace = ""           # abstract trace string (kinds only) -> hashed
        self.inconclusive = False
        self.steps = 0
        self.notes = collections.Counter()   # free counters merged into evidence
        self.sample = None        # jsonable description of the case for evidence

    def violate(self, clause, detail="", input_class="", exc=None, frame=None):
        self.violations.append(Violation(clause, detail, input_class, exc, frame))


# ------------------------------------------------------------------ json helpers
def to_jsonable(o):
    if isinstance(o, (bytes, bytearray)):
        return {"__bytes__": bytes(o).hex()}
    if isinstance(o, dict):
        return {str(k): to_jsonable(v) for k, v in o.items()}
    if isinstance(o, (list, tuple)):
        return [to_jsonable(v) for v in o]
    if isinstance(o, float) and (o != o or o in (float("inf"), float("-inf"))):
        return {"__float__": repr(o)}
    return o


def from_jsonable(o):
    if isinstance(o, dict):
        if set(o) == {"__bytes__"}:
            return bytes.fromhex(o["__bytes__"])
        if set(o) == {"__float__"}:
            return float(o["__float__"])
        return {k: from_jsonable(v) for k, v in o.items()}
    if isinstance(o, list):
        return [from_jsonable(v) for v in o]
    return o


def brief(o, maxbytes=24, maxlist=12):
    """shortened jsonable view of a case for evidence samples"""
    if isinstance(o, (bytes, bytearray)):
        h = bytes(o[:maxbytes]).hex()
        return "bytes[%d]:%s%s" % (len(o), h, "..." if len(o) > maxbytes else "")
    if isinstance(o, str):
        return o if len(o) <= 80 else o[:77] + "..."
    if isinstance(o, dict):
        return {str(k): brief(v, maxbytes, maxlist) for k, v in o.items()}
    if isinstance(o, (list, tuple)):
        r = [brief(v, maxbytes, maxlist) for v in o[:maxlist]]
        if len(o) > maxlist:
            r.append("...(+%d)" % (len(o) - maxlist))
        return r
    if isinstance(o, float) and (o != o or o in (float("inf"), float("-inf"))):
        return repr(o)
    return o


# ------------------------------------------------------------------ known findings
def load_known(pid):
    path = os.path.join(VERIF, "known_findings.json")
    if not os.path.exists(path):
        return []
    with open(path) as f:
        data = json.load(f)
    return [e for e in data if e.get("property") == pid and e.get("status") == "known"]


def match_known(known, v):
    for e in known:
        if e.get("clause") == v["clause"] and e.get("input_class") == v["input_class"]:
            return e
    return None


# ------------------------------------------------------------------ shard worker
def shard_seed(seed, shard, pid):
    h = hashlib.sha256(("%s/%d/%d" % (pid, seed, shard)).encode()).digest()
    return int.from_bytes(h[:8], "big")


def run_guarded(mod, params):
    """run one case; anything escaping run_case is a harness error, not a violation"""
    import signal
    limit = getattr(mod, "CASE_WALL_S", 30)

    active = [True]

    def _alarm(signum, frame):
        if active[0]:
            raise CaseTimeout()
    old_h = signal.signal(signal.SIGALRM, _alarm)
    signal.setitimer(signal.ITIMER_REAL, limit, 2.0)
    try:
        try:
            res = mod.run_case(params)
        finally:
            active[0] = False
        if not isinstance(res, CaseResult):
            raise TypeError("run_case returned %r" % (res,))
        return res, None
    except CaseTimeout:
        # a (mutated) implementation can livelock the simulation: inconclusive, never a violation
        res = CaseResult()
        res.inconclusive = True
        res.notes["case_wall_timeout"] += 1
        res.features = dict(timeout=True)
        return res, None
    except BaseException as ex:   # noqa
        if isinstance(ex, (KeyboardInterrupt, SystemExit)):
            raise
        return None, "%r\n%s" % (ex, traceback.format_exc()[-3000:])
    finally:
        signal.setitimer(signal.ITIMER_REAL, 0)
        signal.signal(signal.SIGALRM, old_h)


def _worker(args):
    pid, tier, seed, shard, nshards, n_examples, wall_budget, part = args
    os.environ["PYTHONHASHSEED"] = "0"
    if not os.environ.get("VERIF_DEBUG"):
        sys.stdout = open(os.devnull, "w")     # the code under test prints ("LOGGING ...")
        sys.stderr = open(os.devnull, "w")
    import hypothesis
    from hypothesis import given, settings, HealthCheck, Phase, Verbosity
    import simworld  # noqa: F401  (see main)
    mod = importlib.import_module("props." + pid.lower())
    known = load_known(pid)
    t0 = time.time()
    out = dict(evaluations=0, nontrivial=0, nt_keys=set(), features=collections.Counter(),
               notes=collections.Counter(), samples={}, inconclusive=0, steps=0,
               known_hits=collections.Counter(), violation=None, harness_error=None,
               skipped=0, wall=0.0, shard=shard)
    state = dict(last_fail=None)
    strat = mod.strategy(tier, part) if part is not None else mod.strategy(tier)

    def one(params):
        if out["harness_error"] is not None:
            return
        if time.time() - t0 > wall_budget:
            out["skipped"] += 1
            return
        res, err = run_guarded(mod, params)
        if err is not None:
            out["harness_error"] = dict(error=err, params=to_jsonable(params))
            return
        out["evaluations"] += 1
        out["steps"] += res.steps
        out["notes"].update(res.notes)
        fkey = json.dumps(res.features, sort_keys=True, default=str)
        out["features"][fkey] += 1
        if res.inconclusive:
            out["inconclusive"] += 1
        if res.nontrivial:
            out["nontrivial"] += 1
            k = hashlib.sha256((fkey + "|" + res.trace).encode()).hexdigest()[:16]
            out["nt_keys"].add(k)
        if fkey not in out["samples"] and len(out["samples"]) < 40 and (res.nontrivial or len(out["samples"]) < 4):
            out["samples"][fkey] = dict(case=brief(res.sample if res.sample is not None else params),
                                        features=res.features, nontrivial=res.nontrivial,
                                        outcome="violation" if res.violations else "held")
        unknown = []
        for v in res.violations:
            e = match_known(known, v)
            if e is not None:
                out["known_hits"][(v["clause"], v["input_class"])] += 1
            else:
                unknown.append(v)
        if unknown:
            state["last_fail"] = (params, unknown)
            raise AssertionError("violation: %s" % (unknown[0].bucket(),))

    phases = [Phase.explicit, Phase.generate]
    if tier == "thorough":
        phases += [Phase.target, Phase.shrink]
    test = hypothesis.seed(shard_seed(seed, shard, pid + (part or "")))(
        settings(max_examples=max(1, n_examples), database=None, deadline=None, derandomize=False,
                 report_multiple_bugs=False, print_blob=False, phases=phases,
                 suppress_health_check=list(HealthCheck), verbosity=Verbosity.quiet)(
            given(strat)(one)))
    try:
        test()
    except AssertionError:
        pass
    except BaseException as ex:   # hypothesis-internal errors (Flaky, Unsatisfiable...) and worker bugs
        if state["last_fail"] is None:
            out["harness_error"] = dict(error="%r\n%s" % (ex, traceback.format_exc()[-3000:]), params=None)
    if state["last_fail"] is not None and out["harness_error"] is None:
        params, unknown = state["last_fail"]
        if hasattr(mod, "reduce_case"):
            try:
                params, unknown = reduce_generic(mod, params, unknown, known)
            except Exception:
                pass
        out["violation"] = dict(params=to_jsonable(params), violations=[dict(v) for v in unknown])
    out["wall"] = time.time() - t0
    out["nt_keys"] = sorted(out["nt_keys"])
    out["known_hits"] = [[k[0], k[1], n] for k, n in out["known_hits"].items()]
    out["features"] = dict(out["features"])
    out["notes"] = dict(out["notes"])
    return out


def reduce_generic(mod, params, unknown, known, budget=150):
    """harness-side bounded reducer: module supplies candidate simplifications"""
    target = unknown[0].bucket()[:1]
    n = 0
    progress = True
    while progress and n < budget:
        progress = False
        for cand in mod.reduce_case(params):
            n += 1
            if n >= budget:
                break
            res, err = run_guarded(mod, cand)
            if err is not None or res is None:
                continue
            u = [v for v in res.violations if match_known(known, v) is None]
            if u and u[0].bucket()[:1] == target:
                params, unknown, progress = cand, u, True
                break
    return params, unknown


# ------------------------------------------------------------------ master
def write_replay(pid, params_json, violations, tag=""):
    d = os.path.join(VERIF, "replays")
    os.makedirs(d, exist_ok=True)
    body = dict(property=pid, params=params_json, violation=violations, part=tag or None)
    blob = json.dumps(body, sort_keys=True, indent=1)
    sha = hashlib.sha256(blob.encode()).hexdigest()[:12]
    path = os.path.join(d, "%s-%s.json" % (pid, sha))
    with open(path, "w") as f:
        f.write(blob)
    return path


def run_replay(pid, path):
    import simworld  # noqa: F401  (see main)
    mod = importlib.import_module("props." + pid.lower())
    known = load_known(pid)
    with open(path) as f:
        body = json.load(f)
    params = from_jsonable(body["params"])
    if body.get("part") and hasattr(mod, "run_part_case"):
        res, err = None, None
        try:
            res = mod.run_part_case(body["part"], params)
        except Exception as ex:
            err = repr(ex)
    else:
        res, err = run_guarded(mod, params)
    if err is not None:
        print("HARNESS-ERROR in replay: %s" % err)
        return 2
    unknown = []
    for v in res.violations:
        e = match_known(known, v)
        if e is not None:
            print("KNOWN-FINDING: property=%s %s" % (pid, e.get("input_class")))
        else:
            unknown.append(v)
    for v in unknown:
        print("  clause=%s input_class=%s exc=%s frame=%s\n  detail=%s" % (
            v["clause"], v["input_class"], v["exc"], v["frame"], v["detail"]))
    if unknown:
        print("VIOLATION property=%s replay=%s" % (pid, path))
        return 1
    print("replay: property %s held on %s" % (pid, path))
    return 0


def main(argv=None):
    ap = argparse.ArgumentParser()
    ap.add_argument("pid")
    ap.add_argument("--tier", default=os.environ.get("VERIF_TIER", "quick"))
    ap.add_argument("--replay")
    ap.add_argument("--examples", type=int)
    ap.add_argument("--no-evidence", action="store_true")
    a = ap.parse_args(argv)
    pid = a.pid.upper()
    tier = a.tier if a.tier in ("quick", "thorough") else "quick"
    try:
        seed = int(os.environ.get("VERIF_SEED", "1"))
    except ValueError:
        seed = 1
    sys.path.insert(0, os.path.join(VERIF, "harness"))
    if a.replay:
        return run_replay(pid, a.replay)
    t0 = time.time()
    try:
        # simworld must be imported before anything pulls in wormhole._dilation: it puts the Noise
        # implementation (noiseprotocol or the /verif shim) on sys.path, and wormhole binds it at import
        import simworld  # noqa: F401
        mod = importlib.import_module("props." + pid.lower())
    except Exception:
        traceback.print_exc()
        print("HARNESS-ERROR: cannot import check for %s" % pid)
        return 2
    known = load_known(pid)
    cfg = mod.TIERS[tier]
    violations = []     # (replay path, violation dicts)
    known_hits = collections.Counter()
    harness_errors = []
    extra_cov = {}

    # 1. regression replays (seconds-long tier)
    nreg = 0
    for path in sorted(glob.glob(os.path.join(VERIF, "regressions", pid, "*.json"))):
        with open(path) as f:
            body = json.load(f)
        params = from_jsonable(body["params"])
        res, err = run_guarded(mod, params)
        nreg += 1
        if err is not None:
            harness_errors.append("regression %s: %s" % (path, err))
            continue
        unk = []
        for v in res.violations:
            e = match_known(known, v)
            if e is not None:
                known_hits[(v["clause"], v["input_class"])] += 1
            else:
                unk.append(dict(v))
        if unk:
            violations.append((path, unk))

    # 2. deterministic / exhaustive extras supplied by the module
    if hasattr(mod, "extra"):
        try:
            ex = mod.extra(tier, seed)
            extra_cov = ex.get("coverage", {})
            for v in ex.get("violations", []):
                e = match_known(known, v)
                if e is not None:
                    known_hits[(v["clause"], v["input_class"])] += 1
                else:
                    vd = {k: v.get(k) for k in ("clause", "detail", "input_class", "exc", "frame")}
                    p = write_replay(pid, to_jsonable(v.get("params", {})), [vd], tag=v.get("part", "extra"))
                    violations.append((p, [vd]))
        except Exception:
            harness_errors.append("extra(): " + traceback.format_exc()[-3000:])

    # 3. sharded Hypothesis search; a module may define several parts (generators)
    parts = getattr(mod, "PARTS", [None])
    merged = dict(evaluations=0, nontrivial=0, nt_keys=set(), features=collections.Counter(),
                  notes=collections.Counter(), samples={}, inconclusive=0, steps=0, skipped=0)
    per_part = {}
    jobs = []
    n_total = a.examples or cfg["examples"]
    wall_budget = cfg.get("wall", 600 if tier == "quick" else 3 * 3600)
    for part in parts:
        n_part = n_total if part is None else (a.examples or cfg.get("parts", {}).get(part, n_total))
        ns = min(NSHARDS, max(1, n_part))
        for sh in range(ns):
            jobs.append((pid, tier, seed, sh, ns, (n_part + ns - 1) // ns, wall_budget, part))
    ctx = mp.get_context("fork")
    with ctx.Pool(min(NSHARDS, len(jobs))) as pool:
        results = pool.map(_worker, jobs, chunksize=1)
    for job, r in zip(jobs, results):
        part = job[7]
        if os.environ.get("VERIF_DEBUG"):
            print("shard", job[3], part, "evaluations", r["evaluations"], "violation", bool(r["violation"]),
                  "harness_error", bool(r["harness_error"]), "skipped", r["skipped"])
        pp = per_part.setdefault(part or "main", dict(evaluations=0, nontrivial=0))
        pp["evaluations"] += r["evaluations"]
        pp["nontrivial"] += r["nontrivial"]
        for k in ("evaluations", "nontrivial", "inconclusive", "steps", "skipped"):
            merged[k] += r[k]
        merged["nt_keys"].update(((part or "") + k) for k in r["nt_keys"])
        merged["features"].update(r["features"])
        merged["notes"].update(r["notes"])
        for k, v in r["samples"].items():
            merged["samples"].setdefault(k, v)
        for c, ic, n in r["known_hits"]:
            known_hits[(c, ic)] += n
        if r["harness_error"] is not None:
            harness_errors.append("shard %d: %s\nparams=%s" % (
                r["shard"], r["harness_error"]["error"], json.dumps(r["harness_error"]["params"])[:2000]))
        if r["violation"] is not None:
            p = write_replay(pid, r["violation"]["params"], r["violation"]["violations"])
            violations.append((p, r["violation"]["violations"]))

    wall = time.time() - t0
    # choose samples: prefer distinct feature vectors, non-trivial first
    samples = sorted(merged["samples"].values(), key=lambda s: (not s["nontrivial"],))[:12]
    hist = collections.Counter()
    for fkey, n in merged["features"].items():
        for k, v in json.loads(fkey).items():
            hist["%s=%s" % (k, v)] += n
    coverage = dict(
        evaluations=merged["evaluations"] + nreg + int(extra_cov.get("evaluations", 0)),
        distinct_nontrivial=len(merged["nt_keys"]) + int(extra_cov.get("distinct_nontrivial", 0)),
        rule=mod.RULE,
        samples=samples if samples else extra_cov.get("samples", []),
        generated_cases=merged["evaluations"],
        nontrivial_cases=merged["nontrivial"],
        regressions_replayed=nreg,
        inconclusive=merged["inconclusive"],
        skipped_for_wall_budget=merged["skipped"],
        scheduler_steps=merged["steps"],
        feature_histogram=dict(sorted(hist.items())),
        distinct_feature_vectors=len(merged["features"]),
        counters=dict(sorted(merged["notes"].items())),
        known_finding_hits=[dict(clause=c, input_class=ic, hits=n) for (c, ic), n in sorted(known_hits.items())],
        shards=NSHARDS, per_part=per_part,
    )
    for k, v in extra_cov.items():
        if k not in ("evaluations", "distinct_nontrivial", "samples"):
            coverage[k] = v
    if hasattr(mod, "post"):
        try:
            coverage.update(mod.post(coverage) or {})
        except Exception:
            coverage["post_error"] = traceback.format_exc()[-500:]
    if extra_cov.get("samples") and samples:
        coverage["extra_samples"] = extra_cov["samples"]
    ev = dict(property_id=pid, tier=tier, seed=seed, level="exploration", coverage=coverage,
              assumptions=list(getattr(mod, "ASSUMPTIONS", [])), wall_s=round(wall, 2),
              violations=len(violations))
    if not a.no_evidence:
        os.makedirs(os.path.join(VERIF, "evidence"), exist_ok=True)
        with open(os.path.join(VERIF, "evidence", "%s.json" % pid), "w") as f:
            json.dump(ev, f, indent=1, sort_keys=True, default=str)
    print("%s tier=%s seed=%d cases=%d nontrivial=%d distinct_nontrivial=%d inconclusive=%d wall=%.1fs" % (
        pid, tier, seed, coverage["evaluations"], merged["nontrivial"], coverage["distinct_nontrivial"],
        merged["inconclusive"], wall))
    # every listed finding of this property is printed on every run, with the number of cases that hit it
    for e in known:
        c, ic = e.get("clause"), e.get("input_class")
        n = known_hits.get((c, ic), 0)
        print("KNOWN-FINDING: property=%s %s (clause %s, %d hits%s)" % (
            pid, ic, c, n, "" if n else " in this run; schedule-dependent, see known_findings.json"))
    if harness_errors:
        for h in harness_errors[:3]:
            print("HARNESS-ERROR: " + h)
        return 2
    if violations:
        seen = set()
        for path, vs in violations:
            b = (vs[0]["clause"], vs[0]["exc"], vs[0]["frame"], vs[0]["input_class"])
            if b in seen:
                continue
            seen.add(b)
            print("  clause=%s input_class=%s exc=%s frame=%s\n  detail=%s" % (
                vs[0]["clause"], vs[0]["input_class"], vs[0]["exc"], vs[0]["frame"], vs[0]["detail"][:600]))
            print("VIOLATION property=%s replay=%s" % (pid, path))
        return 1
    if hasattr(mod, "health"):
        # generator/driver health judged on the whole run (never a violation)
        msg = mod.health(coverage["counters"], coverage)
        if msg:
            print("HARNESS-ERROR: " + msg)
            return 2
    if coverage["distinct_nontrivial"] < 2:
        print("HARNESS-ERROR: generator produced fewer than 2 distinct non-trivial cases")
        return 2
    return 0


if __name__ == "__main__":
    sys.exit(main())
