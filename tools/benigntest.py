#!/venv/bin/python
"""run checks against a behaviour-preserving change: every check must stay quiet (rc 0).
usage: benigntest.py <patch.diff> <name> <PID[,PID..]>"""
import sys, os, subprocess, json, time
WT = os.environ.get("MUT_WT", "/tmp/mutwt")
def sh(args, **kw):
    return subprocess.run(args, capture_output=True, text=True, **kw)
patch, name, pids = sys.argv[1:4]
if not os.path.isdir(WT):
    subprocess.check_call(["git", "-C", "/repo", "worktree", "add", "--detach", WT, "HEAD"], stdout=subprocess.DEVNULL)
head = subprocess.check_output(["git", "-C", "/repo", "rev-parse", "HEAD"]).decode().strip()
sh(["git", "-C", WT, "checkout", "-q", "--detach", head]); sh(["git", "-C", WT, "checkout", "--", "."])
a = sh(["git", "-C", WT, "apply", patch])
if a.returncode != 0:
    print(name, "PATCH DOES NOT APPLY", a.stderr[:300]); sys.exit(1)
out = {}
try:
    env = dict(os.environ, PYTHONPATH=WT + "/src", PYTHONHASHSEED="0")
    r = sh(["/venv/bin/python", "-m", "pytest", "-q", "-p", "no:cacheprovider", "--timeout=900", "src/wormhole/test"], cwd=WT, env=env)
    suite = (r.stdout.strip().splitlines() or ["?"])[-1]
    for p in pids.split(","):
        t0 = time.time()
        r = sh(["/verif/check", p, "--no-evidence"], env=dict(os.environ, VERIF_REPO=WT))
        lines = [l for l in r.stdout.splitlines() if l.startswith(("VIOLATION", "  clause", "  detail", "HARNESS"))]
        out[p] = dict(rc=r.returncode, wall=round(time.time() - t0, 1), lines=lines[:4])
finally:
    sh(["git", "-C", WT, "checkout", "--", "."])
bad = {p: v for p, v in out.items() if v["rc"] != 0}
print(name, "suite:", suite, "| quiet" if not bad else "| ALARM in " + ",".join(bad))
for p, v in bad.items():
    print("   ", p, "rc=%d" % v["rc"], *[l[:300] for l in v["lines"]], sep="\n      ")
os.makedirs("/verif/benign", exist_ok=True)
json.dump(dict(name=name, suite=suite, checks=out), open("/verif/benign/%s.json" % name, "w"), indent=1)
