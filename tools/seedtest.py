#!/venv/bin/python
"""confirm a seeded change and run checks against it.
usage: seedtest.py <srcdir with patch.diff demo.py notes.md> <name under /verif/seeded> <PID[,PID..]> [--no-suite] [--examples N]"""
import sys, os, subprocess, shutil, json, time
WT = os.environ.get("MUT_WT", "/tmp/mutwt")
def sh(args, **kw):
    return subprocess.run(args, capture_output=True, text=True, **kw)
def main():
    src, name, pids = sys.argv[1:4]
    extra = sys.argv[4:]
    if not os.path.isdir(WT):
        subprocess.check_call(["git", "-C", "/repo", "worktree", "add", "--detach", WT, "HEAD"], stdout=subprocess.DEVNULL)
    head = subprocess.check_output(["git", "-C", "/repo", "rev-parse", "HEAD"]).decode().strip()
    sh(["git", "-C", WT, "checkout", "-q", "--detach", head]); sh(["git", "-C", WT, "checkout", "--", "."])
    env = dict(os.environ, PYTHONPATH=WT + "/src", PYTHONHASHSEED="0")
    demo = os.path.join(src, "demo.py")
    txt = open(demo).read()
    seeddir = os.path.dirname(os.path.dirname(os.path.abspath(src)))   # /tmp/seed/Cxx
    if seeddir in txt:
        txt = txt.replace(seeddir, WT)
    dst = os.path.join("/verif/seeded", name)
    os.makedirs(dst, exist_ok=True)
    if os.path.realpath(src) != os.path.realpath(dst):      # re-confirmation runs straight from /verif/seeded/<name>
        open(os.path.join(dst, "demo.py"), "w").write(txt)
        shutil.copy(os.path.join(src, "patch.diff"), dst)
        if os.path.exists(os.path.join(src, "notes.md")):
            shutil.copy(os.path.join(src, "notes.md"), dst)
    meta = dict(property=pids.split(",")[0], checks_run=pids.split(","), repo_head=head[:7])
    try:
        info = json.load(open("/verif/tools/seed_info.json")).get(name, {})
        meta["change"] = info.get("change")
        meta["needs_to_manifest"] = info.get("needs")
    except Exception:
        pass
    meta["how_confirmed"] = ("tools/seedtest.py: scratch worktree of /repo HEAD; demo.py run without the patch (must exit 0) and "
                             "with it (must exit non-zero); full test suite with the patch (must pass); then the listed checks' "
                             "quick tier with VERIF_REPO pointing at the patched worktree")
    r = sh(["/venv/bin/python", os.path.join(dst, "demo.py")], env=env, cwd=WT, timeout=300)
    meta["demo_clean"] = dict(rc=r.returncode, tail=r.stdout.strip().splitlines()[-1:] )
    a = sh(["git", "-C", WT, "apply", os.path.join(dst, "patch.diff")])
    if a.returncode != 0:
        print("PATCH DOES NOT APPLY:", a.stderr[:500]); meta["applies"] = False
        json.dump(meta, open(os.path.join(dst, "meta.json"), "w"), indent=1); return 1
    meta["applies"] = True
    try:
        r = sh(["/venv/bin/python", os.path.join(dst, "demo.py")], env=env, cwd=WT, timeout=600)
        meta["demo_patched"] = dict(rc=r.returncode, tail=r.stdout.strip().splitlines()[-1:])
        if "--no-suite" not in extra:
            r = sh(["/venv/bin/python", "-m", "pytest", "-q", "-p", "no:cacheprovider", "--timeout=900", "src/wormhole/test"], cwd=WT, env=env)
            meta["suite_patched"] = (r.stdout.strip().splitlines() or ["?"])[-1]
        det = {}
        for p in pids.split(","):
            t0 = time.time()
            args = ["/verif/check", p, "--no-evidence"] + [a for a in extra if a != "--no-suite"]
            r = sh(args, env=dict(os.environ, VERIF_REPO=WT))
            lines = [l for l in r.stdout.splitlines() if l.startswith(("VIOLATION", "  clause", "HARNESS", p + " "))]
            det[p] = dict(rc=r.returncode, result="DETECTED" if r.returncode == 1 else "MISSED" if r.returncode == 0 else "ERROR",
                          wall=round(time.time() - t0, 1), lines=lines[:5])
        meta["checks"] = det
    finally:
        sh(["git", "-C", WT, "checkout", "--", "."])
    ok = meta["demo_clean"]["rc"] == 0 and meta["demo_patched"]["rc"] != 0 and ("passed" in meta.get("suite_patched", "passed") and "failed" not in meta.get("suite_patched", ""))
    meta["confirmed"] = bool(ok)
    json.dump(meta, open(os.path.join(dst, "meta.json"), "w"), indent=1)
    print(name, "confirmed=%s" % ok, "demo clean rc=%s patched rc=%s" % (meta["demo_clean"]["rc"], meta["demo_patched"]["rc"]), meta.get("suite_patched"))
    for p, d in meta["checks"].items():
        print("   ", p, d["result"], d["wall"], "s", (d["lines"][1] if len(d["lines"]) > 1 else "")[:200])
    return 0
sys.exit(main())
