SIM_NOTE = ("Trusted base: the simulated WebSocket/TCP/clock model of DESIGN.md 2.1 (whole-message mailbox link, "
            "byte-queue TCP links), the real wormhole_mailbox_server package, Hypothesis. Exploration only: absence is "
            "not established; liveness is judged at quiescence within a step budget after faults stop.")
TABLE = {
 "C03": dict(engine="simworld", technique="property-based testing: Hypothesis-generated message lists, schedules and fault sequences; prefix-at-every-step / equality-at-quiescence oracle against the list of send_message arguments",
             text="Generated search over message contents, code-entry methods, both API styles, server-side duplication/reordering of `message` events and up to 5 connection losses per case, with the real clients and real mailbox server composed; the oracle is checked after every scheduler step. Suitable because the property quantifies over interleavings and loss points that only a harness owning the schedule can enumerate.",
             note=SIM_NOTE),
}
NOT_APPLICABLE = {}

TABLE["C09"] = dict(engine="simworld", technique="property-based testing: Hypothesis-generated connection-loss sequences (incl. failed WebSocket negotiations on reconnect) and schedules against the real server; completion + exactly-once + conformant-resumption oracle",
    text="1-8 mailbox-connection losses per case at tape-chosen points between any two scheduler events, so commands and replies are lost in flight; oracle at quiescence: equal verifiers, versions, every message once in order, no repeated event, the real server never had to answer `error`, every connection began with `bind`, no error log, no reconnect loop in the fault-free stabilisation.",
    note=SIM_NOTE)
TABLE["C18"] = dict(engine="simworld", technique="property-based testing: generated schedules, reorderings, losses and get_*() request timings (several outstanding get_message Deferreds, requests after closed); causal-order / at-most-once / every-Deferred-resolves oracle over the recorded event sequence",
    text="Both API styles; in Deferred mode each get_*() is requested at tape-chosen times, repeated after closed, with up to 4 concurrent get_message() chains; order clauses are judged where the observation order is the event order (delegate, or all gets requested up front); versions-before-messages only with an order-preserving server.",
    note=SIM_NOTE)
TABLE["C08"] = dict(engine="simworld", technique="property-based testing: generated close()/error trigger points x losses x schedules; reference verdict model with [earliest,latest] trigger times + per-resource server-database oracle",
    text="close() (or a welcome error, injected server error, wrong code, refused connection, crowding third party) at a tape-chosen step from right after create() to after data exchange, once or twice, also from inside delegate callbacks; oracle: one closed notification, nothing after it, verdict of the first trigger, and the real server's tables show the client's own nameplate claim released and mailbox closed with the matching mood. One genuine defect is recorded as a known finding (close() hangs when the server answers `close` with `error`).",
    note=SIM_NOTE)
TABLE["C14"] = dict(engine="simworld", technique="property-based testing: generated legal API histories (incl. re-entrant calls and input-helper call orders) x conformant-server behaviours; oracle = no NoTransition/assertion/exception escaping or logged under wormhole/, verdict documented; (machine,state,input) coverage recorded",
    text="Union of the mailbox-world generators plus a directed part that races code entry against closures the wormhole starts itself. The five unhandled (state,input) pairs this found on the pinned tree were repaired in repo commit 18797ca (fix:) and are kept as regression replays.",
    note=SIM_NOTE)


TABLE["C01"] = dict(engine="simworld", technique="property-based testing: Hypothesis-generated code pairs (NFC/NFD spellings, one-character edits, case, nameplate, appid), entry methods and schedules; oracle = independent NFC equality decides agreement (verifier/key/derive_key equality) vs. total silence + WrongPasswordError",
    text="Two real clients are driven with generated code pairs through set_code / allocate_code / input_code (incl. peer PAKE before local code); a message-level man-in-the-middle forces a meeting where nameplate or appid differ. 'same' is computed by the harness with unicodedata, independently of util.to_bytes.",
    note=SIM_NOTE + " SPAKE2/NaCl are trusted; only the binding structure is tested.")
TABLE["C02"] = dict(engine="simworld", technique="property-based testing: generated tamper programs (flip/truncate/extend/relabel phase+side/reflect/cross-phase replay/inject/fake PAKE/duplicate/replay/third participant) at tape-chosen positions + an enumerated single-operation sweep; behavioural oracle: delivered is a prefix of the peer's sends, versions exact and once",
    text="Hypothesis search over 1-4 operation programs plus a deterministic sweep of every operation x every even step of a fixed 3+3 exchange and replay/dup/cross-phase/reflect after a 40-message history (exhaustive for that sub-space).",
    note=SIM_NOTE + " Structural manipulations only; no cryptanalysis.")

COMP_NOTE = ("Trusted base: Hypothesis, the harness's independent reference (re-derived from the property statement), "
             "and for drivers on the simulated reactor the TCP/clock model of DESIGN.md 2.1. Exploration only.")
TABLE["C20"] = dict(engine="component", technique="property-based testing: Hypothesis-generated JSON hint lists (field-wise mutations of valid hints, every JSON type in every position, random recursive dicts); oracle = no exception + dialled (host,port) set equals an independent reference filter + encode/parse round trip",
    text="Three drivers: _hints.parse_hint/parse_tcp_v1_hint directly, Transit{Sender,Receiver}.add_connection_hints+connect() on the simulated reactor (what is dialled is observed at connectTCP), and (where registered) a real dilating peer sending the list. The crashes this found on the pinned tree were repaired in repo commit 42cc806 (fix:) and are kept as regression replays.",
    note=COMP_NOTE)

TABLE["C19"] = dict(engine="component", technique="property-based testing + exhaustive enumeration of the byte->word map: Hypothesis-generated code lengths, malformed codes/nameplates, typed prefixes and server nameplate lists against real wormholes on the real server; entropy decided by enumerating os.urandom (256 values x 8 positions, 65536 pairs)",
    text="Four generated parts (allocate structure, validation incl. 'nothing sent', completion through the real Input helper and CodeInputter, only-one-code) plus an exhaustive part run in both tiers. The trailing-newline nameplate this found was repaired in repo commit a53d28e (fix:).",
    note=COMP_NOTE + " os.urandom itself is trusted.")

TABLE["C12"] = dict(engine="component", technique="property-based testing: Hypothesis-generated record sequences (all types, 32-bit boundary ids, payload sizes around the Noise packet limits), tape-chosen chunkings and hostile byte-stream variants against a real DilatedConnectionProtocol pair with real Noise; round-trip oracle and nothing-surfaced-after-hostile-element oracle; a second generated part builds several connection pairs of one or two independently keyed sessions in one process (at most one selected per session, the others left as candidates or lost with records parked) with the oracle 'a manager is handed exactly what the peer of its selected connection sent'; the thorough tier adds a coverage-guided atheris (libFuzzer) campaign on the unkeyed byte stream with the same oracle inside the fuzz target",
    text="Both ends are the real protocol objects built by Connector.build_protocol (framer, record layer, Noise), joined by byte pipes; the manager is a recording stub, so 'reaching the manager' is observed directly. Hostile variants are produced by a party that does not hold the dilation key.",
    note=COMP_NOTE + " The Noise implementation in use (noiseprotocol if importable, else the /verif shim self-tested by setup) is trusted as an AEAD.")

TABLE["C06"] = dict(engine="component", technique="property-based testing: Hypothesis-generated record sequences, chunkings, receive modes and single-point ciphertext manipulations against a real transit Connection pair after a real handshake; prefix-up-to-first-manipulation oracle + dropped/pending-reads-fail oracle",
    text="Both ends are real transit.Connection objects owned by real TransitSender/TransitReceiver (real key derivation, real SecretBox), joined by byte pipes under tape-chosen chunking; the manipulating party works on the framed ciphertext without the key.",
    note=COMP_NOTE)

TABLE["C05"] = dict(engine="component", technique="property-based testing: Hypothesis-generated hostile offer names, zip member names, --output-file/--accept-file configurations and pre-existing objects against the real `wormhole receive` code (cmd_receive.receive with only the wormhole object and TransitReceiver faked) on the real filesystem; sandbox snapshot-diff oracle against a reference destination computed from the statement",
    text="The real Receiver._parse_offer code path (destination decision, permission prompt, .tmp handling, zip extraction) runs with a fake wormhole and record pipe in a fresh sandbox base/outer/cwd full of decoys; a before/after snapshot (kind, content hash, mode) of the whole sandbox is compared with what the statement allows. One genuine defect is recorded as a known finding (a pre-existing <dest>.tmp is clobbered).",
    note=COMP_NOTE + " Real filesystem under /verif/scratch (removed per case); the check runs as root.")

TABLE["C07"] = dict(engine="simworld", technique="property-based testing: Hypothesis-generated contender topologies (listeners, unreachable hints, relay, rogues of 8 kinds, late connect()) with byte-by-byte tape scheduling of every handshake on the simulated network; oracle = one link / two ends / go only after the right handshake / losers shut down at resolution / deadline",
    text="Real TransitSender.connect()/TransitReceiver.connect(), real endpoints, the real transit relay, all on the simulated network where the tape decides when each attempt completes and how many bytes move; a late key-holding prober checks that nothing is confirmed after connect() resolved.",
    note=SIM_NOTE)

TABLE["C04"] = dict(engine="simworld", technique="property-based testing: Hypothesis-generated payloads (text, files around record boundaries, directory trees with empty dirs and odd names) and fault points (cut/flip of the data stream on the selected link, lost or altered acknowledgement) through the real CLI send()/receive() in the simulated world; oracle = success implies byte-exact tree, fault implies no success claim and no final file",
    text="The real cmd_send.send and cmd_receive.receive run end to end (real mailbox server, real Transit, real temporary directories); faults are applied to the selected transit link once both ends are in records state, and to the receiver's acknowledgement record before encryption.",
    note=SIM_NOTE + " Permissions/mtimes are not compared.")

DIL_NOTE = SIM_NOTE + " Dilation runs over the simulated TCP network; Noise is noiseprotocol if importable, else the /verif shim (self-tested by setup)."
TABLE["C10"] = dict(engine="simworld", technique="property-based testing: Hypothesis-generated subchannel operation histories (open/write/close on several subchannels, both directions, listeners early or late) interleaved by a tape with kills of the selected link at arbitrary byte positions; per-subchannel sequence-equality oracle checked after every step and at quiescence",
    text="Two real dilated wormholes end to end (Manager, Connector, L2 protocol with Noise, Inbound/Outbound, subchannels); the link in use is killed 0-5 times per case with the two sides noticing independently, writes are issued also while disconnected; the oracle compares what each application end received with what the other end wrote, write boundary by write boundary.",
    note=DIL_NOTE)

TABLE["C13"] = dict(engine="simworld", technique="property-based testing: Hypothesis-generated listen/connect/write/close interleavings on both sides with declared expected-subprotocol sets, late and missing listeners, simultaneous closes and writes after close; subchannel lifecycle reference model checked after every step and at quiescence",
    text="Real dilated wormholes; expected_subprotocols is passed through w.dilate() so the wiring is on the path. The defect this found (the declared set was ignored) was repaired in repo commit 0b73d02 (fix:).",
    note=DIL_NOTE + " For IHalfCloseableProtocol applications read/writeConnectionLost are recorded and reported, not asserted.")

TABLE["C11"] = dict(engine="simworld", technique="property-based testing: Hypothesis-generated schedules of mailbox control messages, candidate establishment and byte-wise handshake progress, selection turns, timers, dilate() timing and kills of selected and non-selected links; role/one-connection/confirmed-by-Leader invariants after every step + convergence oracle at quiescence",
    text="Real Manager/Connector/L2 protocol pairs with 1-3 candidates per generation (listeners, relay), the link in use killed 0-4 times with either side noticing first, timers advanced by the tape; invariants are evaluated after every scheduler step and the two sides must end on the two ends of one link.",
    note=DIL_NOTE)

TABLE["C17"] = dict(engine="simworld", technique="property-based testing: Hypothesis-generated close() points over the dilated world (tape-chosen, or steered to the moment a given Manager/Connector state is observed), peer variants (dilating, non-dilating, never dilates, turning silent), half-dead links; oracle = closed fires once and at that moment the side owns no listener, pending attempt or open TCP connection; incapable peer => connect() fails with OldPeerCannotDilateError",
    text="close() is issued at every reachable Manager state (incl. FLUSHING/LONELY/ABANDONING and a candidate awaiting accept, reached by generator steering) against real peers; what the closing side still owns on the simulated network is inspected right after the scheduler event in which its closed notification fired. The leaked accepted connection this found was repaired in repo commit 0d9ef10 (fix:).",
    note=DIL_NOTE)

TABLE["C16"] = dict(engine="simworld", technique="property-based testing: Hypothesis-generated ping intervals, pong delays, silence onsets, pre-monitoring reconnects on the simulated clock against the real Manager/TrafficTimer in a real dilated pair; oracle = drop within 3 intervals of the last answered ping, never drop a responsive peer, new generation + resumed monitoring afterwards, no monitor timer after loss or close",
    text="Time is owned by the harness: the clock jumps from timer to timer, the Follower->Leader bytes of the link in use are delayed or black-holed per case, pings/pongs/disconnects are observed through wrappers on the Leader; zero-latency exchanges that never let time pass are given a small round-trip time so that ping storms show up as late drops rather than livelock.",
    note=DIL_NOTE + " Simulated clock only; float tolerance 1e-9.")

TABLE["C15"] = dict(engine="component", technique="property-based testing: Hypothesis-generated operation histories (register/unregister push and pull producers, closes, drains, pauses arriving inside a producer's turn, connection loss/replacement, subchannel pause/resume/stop) on the real Outbound and Inbound with a model connection, invariant after every operation; plus real dilated wormholes with application producers and tiny buffers",
    text="Model-based history generation (an operation list with an invariant check after every step; Hypothesis shrinks the whole list) against the real Outbound/Inbound, and the same last-signal invariants observed on real subchannels of a real dilated pair, where the real connection object sits under Inbound. The missing pauseProducing/resumeProducing on the real connection was repaired in repo commit ac331df (fix:).",
    note=DIL_NOTE + " The model connection pauses synchronously inside send_record() as Twisted's FileDescriptor does.")
