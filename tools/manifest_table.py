SIM_NOTE = ("Trusted base: the simulated WebSocket/TCP/clock model of DESIGN.md 2.1 (whole-message mailbox link, "
            "byte-queue TCP links), the real wormhole_mailbox_server package, Hypothesis. Exploration only: absence is "
            "not established; liveness is judged at quiescence within a step budget after faults stop.")
TABLE = {
 "C03": dict(engine="simworld", technique="property-based testing: Hypothesis-generated message lists, schedules and fault sequences; prefix-at-every-step / equality-at-quiescence oracle against the list of send_message arguments",
             text="Generated search over message contents, code-entry methods, both API styles, server-side duplication/reordering of `message` events and up to 5 connection losses per case, with the real clients and real mailbox server composed; the oracle is checked after every scheduler step. Suitable because the property quantifies over interleavings and loss points that only a harness owning the schedule can enumerate.",
             note=SIM_NOTE),
}
NOT_APPLICABLE = {}
