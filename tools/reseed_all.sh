#!/bin/bash
# re-confirm every seeded change against the current /repo HEAD and run the owning check(s)
cd /verif
run() { tools/seedtest.py "$@" 2>&1 | grep -v conda; }
S=/tmp/seedout; T=/tmp/seedout
run $S/C01/out/1 C01-1 C01; run $S/C01/out/2 C01-2 C01,C03
run $S/C02/out/1 C02-1 C02; run $S/C02/out/2 C02-2 C02
run $S/C03/out/1 C03-1 C03; run $S/C03/out/2 C03-2 C03,C18
run $T/C04/out/1 C04-1 C04; run $T/C04/out/2 C04-2 C04
run $T/C05/out/1 C05-1 C05; run $T/C05/out/2 C05-2 C05
run $T/C06/out/1 C06-1 C06; run $T/C06/out/2 C06-2 C06
run $T/C07/out/1 C07-1 C07; run $T/C07/out/2 C07-2 C07
run $S/C08/out/2 C08-2 C08
run $S/C09/out/1 C09-1 C09,C14; run $S/C09/out/2 C09-2 C09
run $T/C10/out/1 C10-1 C10; run $T/C10/out/2 C10-2 C10
run $T/C11/out/1 C11-1 C11; run $T/C11/out/2 C11-2 C11
run $T/C12/out/1 C12-1 C12; run $T/C12/out/2 C12-2 C12
run $T/C13/out/1 C13-1 C13,C10; run $T/C13/out/2 C13-2 C13
run $S/C14/out/1 C14-1 C14,C09; run $S/C14/out/2 C14-2 C14,C08
run $T/C15/out/1 C15-1 C15; run $T/C15/out/2 C15-2 C15
run $T/C16/out/1 C16-1 C16; run $T/C16/out/2 C16-2 C16
run $T/C17/out/1 C17-1 C17; run $T/C17/out/2 C17-2 C17
run $S/C18/out/1 C18-1 C18; run $S/C18/out/2 C18-2 C18
run $T/C19/out/1 C19-1 C19; run $T/C19/out/2r C19-2 C19
run $T/C20/out/1 C20-1 C20; run $T/C20/out/2r C20-2 C20
