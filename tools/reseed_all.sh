#!/bin/bash
# re-confirm every kept seeded change (both rounds) against the current /repo HEAD, from the copies stored under
# /verif/seeded/<name>/ (patch.diff, demo.py), and run the check(s) recorded in tools/seed_checks.json
cd /verif
export MUT_WT=${MUT_WT:-/tmp/mutwt}
for d in seeded/C*; do
  n=$(basename $d)
  pids=$(python3 -c "import json,sys; print(json.load(open('tools/seed_checks.json')).get('$n',''))")
  [ -z "$pids" ] && pids=${n%%-*}
  tools/seedtest.py /verif/$d $n $pids "$@" 2>&1 | grep -v conda
done
git -C /repo worktree remove --force $MUT_WT 2>/dev/null
