#!/usr/bin/env python3
"""fill `caught_by` in tools/seed_info.json from seeded/*/meta.json and regenerate the seeded-change tables in
DESIGN.md (between <!-- SEED-TABLE round=N --> markers)"""
import json, glob, os, re
V = "/verif"
info = json.load(open(V + "/tools/seed_info.json"))
status = {}
for d in sorted(glob.glob(V + "/seeded/C*")):
    k = os.path.basename(d)
    try:
        m = json.load(open(d + "/meta.json"))
    except Exception:
        continue
    out = []
    for p, c in (m.get("checks") or {}).items():
        cl = [l for l in c.get("lines", []) if "clause=" in l]
        if c.get("result") == "DETECTED":
            out.append("%s %s" % (p, re.findall(r"clause=(\S+)", cl[0])[0] if cl else "?"))
    status[k] = dict(confirmed=m.get("confirmed"), detected=bool(out), suite=m.get("suite_patched"))
    if k in info:
        info[k]["caught_by"] = ", ".join(out)
json.dump(info, open(V + "/tools/seed_info.json", "w"), indent=1, sort_keys=True)
t = open(V + "/DESIGN.md").read()
for rnd, (lo, hi) in {1: (1, 2), 2: (3, 4), 3: (5, 6), 4: (7, 8), 5: (9, 10), 6: (11, 12), 7: (13, 14)}.items():
    rows = ["| seeded | change (needs …) | caught by → clause |", "|---|---|---|"]
    for k in sorted(info):
        n = int(k.split("-")[1])
        if lo <= n <= hi and os.path.isdir(V + "/seeded/" + k):
            d = info[k]
            needs = (" (%s)" % d["needs"]) if d.get("needs") else ""
            rows.append("| %s | %s%s | %s |" % (k, d["change"], needs, d.get("caught_by") or "-"))
    a, b = "<!-- SEED-TABLE round=%d -->" % rnd, "<!-- /SEED-TABLE round=%d -->" % rnd
    if a in t and b in t:
        t = t[:t.index(a) + len(a)] + "\n" + "\n".join(rows) + "\n" + t[t.index(b):]
open(V + "/DESIGN.md", "w").write(t)
bad = {k: v for k, v in status.items() if not (v["confirmed"] and v["detected"])}
print("seeded changes: %d, confirmed+detected: %d" % (len(status), len(status) - len(bad)))
for k, v in sorted(bad.items()):
    print("  NOT OK:", k, v)
