#!/venv/bin/python
"""regenerate MANIFEST.json from the per-property table below (claimed = module exists in harness/props
and is listed in CLAIMED)."""
import json, os, sys
VERIF = os.path.dirname(os.path.dirname(os.path.abspath(__file__)))
props = [json.loads(l) for l in open(os.path.join(VERIF, "properties.jsonl"))]
sys.path.insert(0, os.path.join(VERIF, "tools"))
from manifest_table import TABLE, NOT_APPLICABLE
BASE = "cd /repo && /venv/bin/python -m pytest -ra -q -p no:cacheprovider --timeout=900 --continue-on-collection-errors"
checks, na = [], []
for p in props:
    pid = p["id"]
    t = TABLE.get(pid)
    if t is None:
        na.append(dict(property_id=pid, reason=NOT_APPLICABLE.get(pid, "check not built yet (see DESIGN.md section 3 for the planned generated search)")))
        continue
    checks.append(dict(
        property_id=pid,
        quick_cmd="./check %s --tier quick" % pid,
        thorough_cmd="./check %s --tier thorough" % pid,
        evidence_file="/verif/evidence/%s.json" % pid,
        replay_cmd_template="./check %s --replay {path}" % pid,
        engine=t["engine"],
        level_claimed=dict(category="exploration", text=t["text"], design_ref="DESIGN.md section 3, " + pid),
        level_note=t["note"],
        technique=t["technique"],
    ))
m = dict(
    version=1,
    setup_cmd="./setup.sh",
    hooks=dict(guard="MAGIC_WORMHOLE_VERIF", enable="no source hooks are needed: checks import /repo/src from the working tree and attach all instrumentation from the harness side", baseline_off_cmd=BASE, source_commits=[], add_only=True),
    engines=[
        dict(name="simworld", path="harness/simworld.py", serves_properties=[c["property_id"] for c in checks if c["engine"] == "simworld"], kind_free_text="deterministic simulated world (real clients, real mailbox server, simulated WebSocket/TCP/clock/entropy) driven by a Hypothesis-generated schedule tape"),
        dict(name="component", path="harness/props", serves_properties=[c["property_id"] for c in checks if c["engine"] == "component"], kind_free_text="Hypothesis strategies / rule-based machines against single real components"),
    ],
    checks=checks,
    not_applicable=na,
    notes="Every check is property-based testing: Hypothesis-generated inputs/schedules/fault sequences against an explicit oracle, sharded over 16 processes, a pure function of VERIF_SEED. See DESIGN.md.",
)
json.dump(m, open(os.path.join(VERIF, "MANIFEST.json"), "w"), indent=1)
print("claimed:", [c["property_id"] for c in checks], "not claimed:", [n["property_id"] for n in na])
