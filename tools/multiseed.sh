#!/bin/bash
# false-alarm hunt on the unchanged tree: every check's quick tier at several seeds, fresh processes
cd /verif
for sd in ${SEEDS:-11 12 13 14}; do
  for p in C01 C02 C03 C04 C05 C06 C07 C08 C09 C10 C11 C12 C13 C14 C15 C16 C17 C18 C19 C20; do
    out=$(VERIF_SEED=$sd ./check $p --no-evidence 2>&1)
    rc=$?
    echo "seed=$sd $p rc=$rc $(echo "$out" | grep -E "^$p tier" | sed 's/.*cases=/cases=/')"
    if [ $rc -ne 0 ]; then echo "$out" | grep -E "clause|detail|HARNESS|VIOLATION" | head -6; fi
  done
done
