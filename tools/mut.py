#!/venv/bin/python
"""sensitivity helper: apply a textual mutant in a scratch worktree of /repo, run a check
against it (VERIF_REPO), report whether it was detected, revert.
usage: mut.py <PID> <relpath under src/wormhole> <old> <new> [--examples N] [--suite]"""
import sys, os, subprocess, shutil
WT = os.environ.get("MUT_WT", "/tmp/mutwt")
def ensure_wt():
    if not os.path.isdir(WT):
        subprocess.check_call(["git", "-C", "/repo", "worktree", "add", "--detach", WT, "HEAD"], stdout=subprocess.DEVNULL)
def main():
    pid, rel, old, new = sys.argv[1:5]
    extra = sys.argv[5:]
    ensure_wt()
    subprocess.check_call(["git", "-C", WT, "checkout", "-q", "--detach", subprocess.check_output(["git","-C","/repo","rev-parse","HEAD"]).decode().strip()])
    subprocess.check_call(["git", "-C", WT, "checkout", "--", "."])
    path = os.path.join(WT, "src/wormhole", rel)
    s = open(path).read()
    if s.count(old) != 1:
        print("MUTANT-ERROR: old string occurs %d times" % s.count(old)); return 3
    open(path, "w").write(s.replace(old, new))
    env = dict(os.environ, VERIF_REPO=WT)
    try:
        pids = pid.split(",")
        rc_all = []
        for p in pids:
            args = ["/verif/check", p, "--no-evidence"] + [a for a in extra if a != "--suite"]
            r = subprocess.run(args, env=env, capture_output=True, text=True)
            tail = [l for l in r.stdout.splitlines() if l.startswith(("VIOLATION", "  clause", "HARNESS", p))]
            print("%s rc=%d %s" % (p, r.returncode, "DETECTED" if r.returncode == 1 else "MISSED" if r.returncode == 0 else "ERROR"))
            for l in tail[:4]: print("   ", l[:300])
            if r.returncode == 2: print(r.stdout[-1500:], r.stderr[-1500:])
            rc_all.append(r.returncode)
        if "--suite" in extra:
            r = subprocess.run(["/venv/bin/python", "-m", "pytest", "-q", "-x", "-p", "no:cacheprovider", "--timeout=900", "src/wormhole/test"], cwd=WT, env=dict(os.environ, PYTHONPATH=WT+"/src"), capture_output=True, text=True)
            print("suite:", r.stdout.strip().splitlines()[-1] if r.stdout.strip() else r.stderr[-300:])
    finally:
        subprocess.check_call(["git", "-C", WT, "checkout", "--", "."])
    return 0
sys.exit(main())
