#!/bin/bash
# offline setup: hypothesis into /venv if missing (wheelhouse), atheris into /verif/.deps (thorough tier
# supplements only), Noise shim self-test.
HERE="$(cd "$(dirname "$0")" && pwd)"
cd "$HERE"
export PIP_NO_INDEX=1
/venv/bin/python -c "import hypothesis" 2>/dev/null || \
  /venv/bin/pip install --no-index --find-links /opt/veriftools/wheels hypothesis >/dev/null 2>&1
/venv/bin/python -c "import hypothesis; print('hypothesis', hypothesis.__version__)" || exit 1
if [ ! -d "$HERE/.deps/atheris" ]; then
  /venv/bin/pip install --no-index --find-links /opt/veriftools/wheels --target "$HERE/.deps" atheris >/dev/null 2>&1 \
    || echo "atheris not installed (coverage-guided supplements will be skipped)"
fi
PYTHONPATH=/repo/src:$HERE/harness /venv/bin/python "$HERE/harness/selftest.py" || exit 1
echo setup ok
